--------------------------- MODULE Pipeline_Trace ---------------------------
(***************************************************************************)
(* End-to-end executions of `panqec run-parallel` + Analysis, validated    *)
(* against Pipeline.tla.  Each record of VERIF_DATA is one behaviour       *)
(* executed on the REAL command in a real data directory:                  *)
(*   [id, cfg: [I, N, C], T0, steps: <<event>>]                            *)
(*   event = [a: "job" | "partial" | "extend", job, delete, via, task, stop,*)
(*            trials, obs: [raised, files, totals, analysis]]              *)
(* obs.files[t+1]  trials found in results_<t+1>.json.gz (-1 no file,      *)
(*                 -2 unreadable / simulations of unequal length)          *)
(* obs.before[t+1] the same, observed just before the step                  *)
(* obs.totals[i+1] trials found for input i summed over all result files   *)
(* obs.analysis[i+1] n_trials that Analysis(results/) reports for input i  *)
(* The events drive Pipeline's own actions; the state after each action is *)
(* the reference.  VERDICT clauses are C14's statement evaluated on the    *)
(* observation; agreement with Pipeline's file-by-file state and with the  *)
(* analysis is reported as NOTE (a different but correct distribution of   *)
(* the remainder is legal).                                                *)
(***************************************************************************)
EXTENDS DataDriven

VARIABLES cfg, T, files, grown, top, extended, progress, steps, hist, tid, l, doneJobs
P == INSTANCE Pipeline WITH MaxI <- 1000, MaxN <- 1000, MaxC <- 1000,
                             MaxT <- 100000, MaxSteps <- 100000,
                             MinN <- 1, MinC <- 1

Ev(t, j) == Recs[t].steps[j]

Init == /\ tid \in 1..NRecs
        /\ l = 1
        /\ cfg = [I |-> Recs[tid].cfg.I, N |-> Recs[tid].cfg.N, C |-> Recs[tid].cfg.C]
        /\ T = Recs[tid].T0
        /\ files = [t \in 0..(cfg.N * cfg.C - 1) |-> P!NoFile]
        /\ grown = {}
        /\ top = [t \in 0..(cfg.N * cfg.C - 1) |->
                    P!Runs([I |-> cfg.I, N |-> cfg.N, C |-> cfg.C, T |-> T], t)]
        /\ progress = [t \in 0..(cfg.N * cfg.C - 1) |-> P!NoLog]
        /\ extended = FALSE /\ steps = 0 /\ hist = <<>>
        /\ doneJobs = {}

Consume == l <= Len(Recs[tid].steps) /\ l' = l + 1 /\ UNCHANGED tid

StepJob == /\ Consume /\ Ev(tid, l).a = "job"
           /\ P!RunJob(Ev(tid, l).job, Ev(tid, l).delete, Ev(tid, l).via)
           /\ doneJobs' = doneJobs \cup {Ev(tid, l).job}
StepPartial == /\ Consume /\ Ev(tid, l).a = "partial"
               /\ P!PartialJob(Ev(tid, l).job, Ev(tid, l).task, Ev(tid, l).stop)
               /\ doneJobs' = doneJobs \ {Ev(tid, l).job}
StepExtend == /\ Consume /\ Ev(tid, l).a = "extend"
              /\ P!Extend(Ev(tid, l).trials)
              /\ doneJobs' = {}
\* a simulation is appended to an input: every job has to run again for it
StepGrow == /\ Consume /\ Ev(tid, l).a = "grow"
            /\ P!Grow(Ev(tid, l).input)
            /\ doneJobs' = {}
Next == StepJob \/ StepPartial \/ StepExtend \/ StepGrow

Inputs == 0..(cfg.I - 1)
Violations(e) ==
  LET o == e.obs IN
     (IF o.raised = "" THEN {} ELSE {"run_parallel_raised"})
\cup (IF ~extended /\ \E i \in Inputs : o.totals[i + 1] > T \/ o.totalsb[i + 1] > T
      THEN {"more_trials_than_requested_for_an_input"} ELSE {})
\cup (IF ~extended /\ doneJobs = 1..cfg.N /\
         \E i \in Inputs : o.totals[i + 1] # T \/ (i \in grown /\ o.totalsb[i + 1] # T)
      THEN {"total_trials_of_an_input_differ_from_the_request_after_all_jobs"} ELSE {})
\cup (IF e.a = "job" /\ \E t \in P!TasksOf(e.job) : o.files[t + 1] < 1 \/ (P!Grown(t) /\ o.filesb[t + 1] < 1)
      THEN {"task_without_a_trial_or_without_a_result_file_of_its_own"} ELSE {})
\cup (IF \E t \in P!Tasks \ P!TasksOf(e.job) : o.files[t + 1] < o.before[t + 1] \/ o.filesb[t + 1] < o.beforeb[t + 1]
      THEN {"result_file_of_a_task_of_another_job_lost_or_shortened"} ELSE {})
     \* whatever the history of requests and extensions of inputs
\cup (IF \E t \in P!Tasks : o.files[t + 1] > top[t] \/ o.filesb[t + 1] > top[t]
      THEN {"task_holds_more_trials_than_the_largest_share_it_was_asked_for"} ELSE {})
Notes(e) ==
  LET o == e.obs IN
     (IF \E t \in P!Tasks : \/ (IF o.files[t + 1] < 0 THEN 0 ELSE o.files[t + 1]) # P!Stored(t)
                             \/ (IF o.filesb[t + 1] < 0 THEN 0 ELSE o.filesb[t + 1]) # P!StoredB(t)
      THEN {"result_files_differ_from_Pipeline_tla"} ELSE {})
\cup (IF o.analysis # o.totals \/ o.analysisb # o.totalsb
      THEN {"analysis_n_trials_differ_from_the_result_files"} ELSE {})
\cup (IF \E t \in P!Tasks : o.progress[t + 1] # progress[t]
      THEN {"progress_logs_differ_from_Pipeline_tla"} ELSE {})
\cup (IF extended /\ doneJobs = 1..cfg.N /\ \E i \in Inputs : o.totals[i + 1] # T
      THEN {"after_an_extension_the_totals_differ_from_the_new_request"} ELSE {})

Judged ==
  (l > 1 /\ Ev(tid, l - 1).a \notin {"extend", "grow"}) =>
    LET e == Ev(tid, l - 1) IN
    /\ (Violations(e) = {} \/ PrintT(<<"REJECT", Recs[tid].id,
                                       { "step_" \o ToString(l - 1) \o ":" \o c : c \in Violations(e) }>>))
    /\ (Notes(e) = {} \/ PrintT(<<"NOTE", Recs[tid].id,
                                  { "step_" \o ToString(l - 1) \o ":" \o c : c \in Notes(e) }>>))

Conservation == P!Conservation
NeverTooMany == P!NeverTooMany
NoTaskBeyondItsLargestShare == P!NoTaskBeyondItsLargestShare
Post == PrintT(<<"CHECKED", TLCGet("distinct") - NRecs>>)
=============================================================================
