------------------------------- MODULE Batch -------------------------------
(***************************************************************************)
(* BatchSimulation: load -> trial loop -> checkpoint -> stop -> restart     *)
(* (panqec/simulation/_batch_simulation.py, _base_simulation.py, utils.py). *)
(* Property C12.                                                           *)
(*                                                                         *)
(* Written to be bound to the code: one action per step of the             *)
(* implementation at which a stop can make a difference.                   *)
(*                                                                         *)
(*   Start        a fresh process is launched with (target, spec, savefreq) *)
(*                or run() is called AGAIN on the same paused / finished    *)
(*                BatchSimulation object (fresh = FALSE: memory is kept)    *)
(*   LoadAll      BatchSimulation.load_results(): every simulation adopts  *)
(*                its own record from the file, if the file parses         *)
(*   ComputeMin   min_current_trial                                        *)
(*   StepEE/StepSucc/StepCS/StepIncr                                       *)
(*                DirectSimulation._run appends to three lists and then    *)
(*                increments n_runs - four separately interruptible steps  *)
(*   IterEnd      decides which saves follow this iteration                *)
(*   SaveEnter    _update_file: a file that does not exist is written twice*)
(*   SaveBegin / SaveOpen / SaveWrite / SaveClose [/ SaveRename]           *)
(*                utils.save_json: open (truncates!), write, close; with   *)
(*                AtomicSave the same steps go to a temporary file and     *)
(*                SaveRename (os.replace) makes it the results file        *)
(*   Interrupt    KeyboardInterrupt at the current point                   *)
(*   Kill         the process dies at the current point (memory lost, the  *)
(*                file keeps whatever reached it)                          *)
(*                                                                         *)
(* A trial is identified by <<run number, simulation, k>> (k-th trial of   *)
(* that simulation, counted from what was loaded), so loss and duplication *)
(* are visible.                                                            *)
(***************************************************************************)
EXTENDS Naturals, Sequences, FiniteSets, TLC, SequencesExt, Json

CONSTANTS Sims,         \* simulations that can be in a specification
          SimOrder,     \* sequence enumerating Sims (order in the input file)
          Foreign,      \* a simulation with other inputs whose record may sit in the file
          MaxTarget, SaveFreqs, Compressed, AtomicSave,
          MaxRuns, MaxKills, MaxInterrupts,
          TailSave,     \* TRUE: the end of _run saves memory that never reached a file (fix 0b4ee39)
          RepairPartial,\* TRUE: a trial starts by discarding the entries a previously
                        \* interrupted trial left beyond n_runs (the fix); FALSE: the snapshot
          Planned       \* TRUE: every process run carries one fault plan chosen
                        \* at Start (used to generate behaviours for replay)

RangeOfSeq(s) == { s[j] : j \in DOMAIN s }
ASSUME Foreign \notin Sims /\ RangeOfSeq(SimOrder) = Sims

VARIABLES
  disk,      \* results file: [kind |-> "absent"|"empty"|"torn"|"valid", data]
  tmp,       \* temporary file of the atomic save, same shape
  pc,        \* control point of the running process, "idle" if none
  mem,       \* in-memory results of the running process: sim -> record
  spec,      \* simulations of the running process's specification
  target, saveFreq,
  iTrial,    \* loop index
  cursor,    \* position in SpecSeq of the simulation whose trial is running
  pending,   \* saves still to do after this iteration (0, 1 or 2)
  snapshot,  \* content being written by the save in progress
  retrying,  \* TRUE while the KeyboardInterrupt handler redoes the save
  twice,     \* TRUE while the extra initial write of a new file is pending
  \* ----- ghost / history ------
  runNo, kills, interrupts,
  lastGood,  \* content of the last completed save: sim -> record
  lastTarget, lastSpec,
  outcome,   \* how the last process ended: "none","done","paused","killed","error"
  freshRun,  \* TRUE iff the current run started in a fresh process
  \* ----- replay generation only (hidden by the VIEW) ------
  nsteps,    \* trial micro-steps executed by this process
  nsaves,    \* save_json calls begun by this process
  plan,      \* fault plan of the running process
  hist       \* per process run: start parameters, fault, expected end state

core  == <<disk, tmp, pc, mem, spec, target, saveFreq, iTrial, cursor, pending,
           snapshot, retrying, twice, runNo, kills, interrupts, lastGood,
           lastTarget, lastSpec, outcome, freshRun>>
vars  == <<core, nsteps, nsaves, plan, hist>>
view  == core

EmptyRec == [ee |-> <<>>, succ |-> <<>>, cs |-> <<>>, n |-> 0]
NoData == <<>>          \* function with empty domain
Absent == [kind |-> "absent", data |-> NoData]
File(kind, data) == [kind |-> kind, data |-> data]

SpecSeq == SelectSeq(SimOrder, LAMBDA s : s \in spec)

(***************************************************************************)
(* Fault plans (Planned mode): where the one stop of a process run happens.*)
(* `at` is a control point, `n` the value of the matching counter (trial   *)
(* micro-steps done so far for the trial points; save_json calls begun so  *)
(* far for the save points).                                               *)
(***************************************************************************)
NoPlan == [kind |-> "none", at |-> "none", n |-> 0]
TrialPCs == {"ee", "succ", "cs", "incr"}
SavePCs == {"open", "write", "close", "rename", "written"}
\* "save" = save_results has been entered but its try block has not: an
\* interrupt there is NOT caught by save_results (no retry), the run pauses
\* with the trials of this iteration in memory only
FaultPCs == TrialPCs \cup SavePCs \cup {"save"}  \* points where the harness can stop the real code
Phase(p) == CASE p = "ee" -> 0 [] p = "succ" -> 1 [] p = "cs" -> 2 [] p = "incr" -> 3
MaxSteps == 4 * Cardinality(Sims) * MaxTarget
PlanSet ==
  {NoPlan}
  \cup UNION { { [kind |-> k, at |-> p, n |-> m] : k \in {"kill", "interrupt"},
                     m \in { x \in 0..MaxSteps : x % 4 = Phase(p) } } : p \in TrialPCs }
  \cup { [kind |-> k, at |-> p, n |-> m] : k \in {"kill", "interrupt"}, p \in SavePCs,
            m \in 1..(2 * MaxTarget + 1) }
  \cup { [kind |-> "kill", at |-> "load", n |-> 0] }
  \cup { [kind |-> "interrupt", at |-> "save", n |-> m] : m \in 0..(2 * MaxTarget) }

Counter == IF pc \in TrialPCs THEN nsteps ELSE IF pc \in SavePCs \cup {"save"} THEN nsaves ELSE 0
FaultDue == Planned /\ plan.kind # "none" /\ pc = plan.at /\ Counter = plan.n

Init ==
  /\ disk \in { Absent,
                File("valid", [s \in {Foreign} |->
                    [ee |-> <<<<0, Foreign, 1>>>>, succ |-> <<<<0, Foreign, 1>>>>,
                     cs |-> <<<<0, Foreign, 1>>>>, n |-> 1]]) }
  /\ tmp = Absent
  /\ pc = "idle" /\ mem = NoData /\ spec = {} /\ target = 0 /\ saveFreq = 1
  /\ iTrial = 0 /\ cursor = 0 /\ pending = 0 /\ snapshot = NoData
  /\ retrying = FALSE /\ twice = FALSE
  /\ runNo = 0 /\ kills = 0 /\ interrupts = 0
  /\ lastGood = NoData /\ lastTarget = 0 /\ lastSpec = {}
  /\ outcome = "none" /\ freshRun = TRUE
  /\ nsteps = 0 /\ nsaves = 0 /\ plan = NoPlan
  /\ hist = <<[initial_disk |-> disk]>>

\* expected observable state when a process has ended (appended to hist)
EndRecord(o, d, m) == [end |-> o, disk |-> d, mem |-> m]

(***************************************************************************)
(* Launching a process: same or grown specification, same or larger target *)
(***************************************************************************)
Start(t, sp, sf, pl, fresh) ==
  /\ pc = "idle" /\ runNo < MaxRuns
  /\ t >= lastTarget /\ t >= 1 /\ lastSpec \subseteq sp /\ sp # {}
  /\ IF fresh
     THEN mem' = [s \in sp |-> EmptyRec]
     ELSE \* same object: only after run() returned (paused or done), same
          \* simulations and save frequency, memory as the last run left it
          /\ outcome \in {"paused", "done"} /\ sp = spec /\ sf = saveFreq
          /\ mem' = mem
  /\ pc' = "load" /\ spec' = sp /\ target' = t /\ saveFreq' = sf
  /\ runNo' = runNo + 1 /\ lastTarget' = t /\ lastSpec' = sp
  /\ iTrial' = 0 /\ cursor' = 0 /\ pending' = 0 /\ snapshot' = NoData
  /\ retrying' = FALSE /\ twice' = FALSE /\ nsteps' = 0 /\ nsaves' = 0
  /\ outcome' = "none" /\ plan' = pl /\ freshRun' = fresh
  /\ hist' = Append(hist, [start |-> runNo + 1, target |-> t, spec |-> sp,
                           savefreq |-> sf, plan |-> pl, fresh |-> fresh])
  /\ UNCHANGED <<disk, tmp, kills, interrupts, lastGood>>

(***************************************************************************)
(* load_results: what each kind of file does to a restart                  *)
(*   valid          : each simulation adopts the record with its inputs    *)
(*   absent         : nothing to load                                      *)
(*   empty          : JSONDecodeError, caught: "starting from scratch"     *)
(*   torn, plain    : JSONDecodeError, caught: "starting from scratch"     *)
(*   torn, gzip     : EOFError / BadGzipFile, NOT caught: the run fails    *)
(***************************************************************************)
LoadAll ==
  /\ pc = "load"
  /\ IF disk.kind = "torn" /\ Compressed
     THEN /\ pc' = "idle" /\ outcome' = "error" /\ UNCHANGED mem
          /\ hist' = Append(hist, EndRecord("error", disk, mem))
     ELSE \* a simulation whose record is not found keeps what it has in
          \* memory (nothing in a fresh process)
          /\ mem' = [s \in spec |->
                       IF disk.kind = "valid" /\ s \in DOMAIN disk.data
                       THEN disk.data[s] ELSE mem[s]]
          /\ pc' = "min" /\ UNCHANGED <<outcome, hist>>
  /\ UNCHANGED <<disk, tmp, spec, target, saveFreq, iTrial, cursor, pending,
                 snapshot, retrying, twice, runNo, kills, interrupts,
                 lastGood, lastTarget, lastSpec, freshRun, nsteps, nsaves, plan>>

MinN == LET S == { mem[s].n : s \in spec } IN CHOOSE m \in S : \A x \in S : m <= x

\* first position >= c in SpecSeq whose simulation still needs a trial; 0 if none
RECURSIVE NextCursorIn(_, _)
NextCursorIn(m, c) == IF c > Len(SpecSeq) THEN 0
                      ELSE IF m[SpecSeq[c]].n < target THEN c ELSE NextCursorIn(m, c + 1)

\* the end of _run: "if nothing was left to run and some simulation holds
\* trials: save_results()" - trials that an interrupted run left in memory
\* without saving them reach the file even when nothing is left to run
\* (fix 0b4ee39; without it ExactCounts fails: Batch_notail_plain.cfg.  TLC
\* refuted a first version of the fix that only looked whether the file
\* exists: the file may exist and hold other simulations' records only.)
TailSaveDue == TailSave /\ \E s \in spec : mem[s].n > 0

ComputeMin ==
  /\ pc = "min"
  /\ iTrial' = MinN
  /\ IF MinN >= target
     THEN IF TailSaveDue
          THEN /\ pc' = "save" /\ pending' = 1 /\ cursor' = 0 /\ UNCHANGED <<outcome, hist>>
          ELSE /\ pc' = "idle" /\ outcome' = "done" /\ cursor' = 0 /\ UNCHANGED pending
               /\ hist' = Append(hist, EndRecord("done", disk, mem))
     ELSE /\ pc' = "ee" /\ cursor' = NextCursorIn(mem, 1) /\ UNCHANGED <<outcome, hist, pending>>
  /\ UNCHANGED <<disk, tmp, mem, spec, target, saveFreq, snapshot,
                 retrying, twice, runNo, kills, interrupts, lastGood,
                 lastTarget, lastSpec, freshRun, nsteps, nsaves, plan>>

(***************************************************************************)
(* One trial of simulation SpecSeq[cursor]: three appends and an increment *)
(***************************************************************************)
Cur == SpecSeq[cursor]
TrialId == <<runNo, Cur, mem[Cur].n + 1>>

TrialUnchanged == UNCHANGED <<disk, tmp, spec, target, saveFreq, iTrial, pending,
                              snapshot, retrying, twice, runNo, kills,
                              interrupts, lastGood, lastTarget, lastSpec, freshRun, nsaves,
                              outcome, plan, hist>>

Trunc(q, n) == IF Len(q) > n THEN SubSeq(q, 1, n) ELSE q
StepEE ==
  /\ pc = "ee" /\ cursor > 0
  /\ LET n == mem[Cur].n
         r == IF RepairPartial
              THEN [mem[Cur] EXCEPT !.ee = Trunc(@, n), !.succ = Trunc(@, n), !.cs = Trunc(@, n)]
              ELSE mem[Cur]
     IN mem' = [mem EXCEPT ![Cur] = [r EXCEPT !.ee = Append(@, TrialId)]]
  /\ pc' = "succ" /\ nsteps' = nsteps + 1
  /\ UNCHANGED cursor /\ TrialUnchanged
StepSucc ==
  /\ pc = "succ"
  /\ mem' = [mem EXCEPT ![Cur].succ = Append(@, TrialId)]
  /\ pc' = "cs" /\ nsteps' = nsteps + 1
  /\ UNCHANGED cursor /\ TrialUnchanged
StepCS ==
  /\ pc = "cs"
  /\ mem' = [mem EXCEPT ![Cur].cs = Append(@, TrialId)]
  /\ pc' = "incr" /\ nsteps' = nsteps + 1
  /\ UNCHANGED cursor /\ TrialUnchanged
StepIncr ==
  /\ pc = "incr"
  /\ LET m2 == [mem EXCEPT ![Cur].n = @ + 1]
         nc == NextCursorIn(m2, cursor + 1)
     IN /\ mem' = m2
        /\ IF nc = 0 THEN pc' = "iterend" /\ cursor' = 0
                     ELSE pc' = "ee" /\ cursor' = nc
  /\ nsteps' = nsteps + 1
  /\ TrialUnchanged

\* after the inner loop: "if i_trial > 0 and i_trial % save_frequency == 0:
\* save; if i_trial == n_trials - 1: save"
IterEnd ==
  /\ pc = "iterend"
  /\ LET p1 == IF iTrial > 0 /\ iTrial % saveFreq = 0 THEN 1 ELSE 0
         p2 == IF iTrial = target - 1 THEN 1 ELSE 0
     IN /\ pending' = p1 + p2
        /\ pc' = IF p1 + p2 > 0 THEN "save" ELSE "advance"
  /\ UNCHANGED <<disk, tmp, mem, spec, target, saveFreq, iTrial, cursor, snapshot,
                 retrying, twice, runNo, kills, interrupts, lastGood,
                 lastTarget, lastSpec, freshRun, nsteps, nsaves, outcome, plan, hist>>

Advance ==
  /\ pc = "advance"
  /\ iTrial' = iTrial + 1
  /\ IF iTrial + 1 >= target
     THEN /\ pc' = "idle" /\ outcome' = "done" /\ cursor' = 0
          /\ hist' = Append(hist, EndRecord("done", disk, mem))
     ELSE /\ UNCHANGED <<outcome, hist>>
          /\ LET nc == NextCursorIn(mem, 1) IN
             IF nc = 0 THEN pc' = "iterend" /\ cursor' = 0
                       ELSE pc' = "ee" /\ cursor' = nc
  /\ UNCHANGED <<disk, tmp, mem, spec, target, saveFreq, pending, snapshot,
                 retrying, twice, runNo, kills, interrupts, lastGood,
                 lastTarget, lastSpec, freshRun, nsteps, nsaves, plan>>

(***************************************************************************)
(* save_results -> _update_file -> save_json                               *)
(***************************************************************************)
Content == [s \in spec |-> mem[s]]

SaveUnchanged == UNCHANGED <<mem, spec, target, saveFreq, iTrial, cursor, runNo,
                             kills, interrupts, lastTarget, lastSpec, freshRun, nsteps,
                             outcome, plan, hist>>

\* _update_file: "if not os.path.isfile(output_file): self.save_file()"
SaveEnter ==
  /\ pc = "save"
  /\ twice' = (disk.kind = "absent")
  /\ pc' = "begin"
  /\ UNCHANGED <<disk, tmp, pending, snapshot, retrying, lastGood, nsaves>> /\ SaveUnchanged

\* save_json is entered: the data to be written are fixed now
SaveBegin ==
  /\ pc = "begin"
  /\ snapshot' = Content
  /\ pc' = "open" /\ nsaves' = nsaves + 1
  /\ UNCHANGED <<disk, tmp, pending, retrying, twice, lastGood>> /\ SaveUnchanged

\* open(file, 'w') / gzip.open(file, 'wb'): the file is truncated
SaveOpen ==
  /\ pc = "open"
  /\ IF AtomicSave THEN tmp' = File("empty", NoData) /\ UNCHANGED disk
                   ELSE disk' = File("empty", NoData) /\ UNCHANGED tmp
  /\ pc' = "write"
  /\ UNCHANGED <<pending, snapshot, retrying, twice, lastGood, nsaves>> /\ SaveUnchanged

\* some but not all bytes have reached the file
SaveWrite ==
  /\ pc = "write"
  /\ IF AtomicSave THEN tmp' = File("torn", NoData) /\ UNCHANGED disk
                   ELSE disk' = File("torn", NoData) /\ UNCHANGED tmp
  /\ pc' = "close"
  /\ UNCHANGED <<pending, snapshot, retrying, twice, lastGood, nsaves>> /\ SaveUnchanged

\* all bytes written and the file closed
SaveClose ==
  /\ pc = "close"
  /\ IF AtomicSave
     THEN /\ tmp' = File("valid", snapshot) /\ UNCHANGED <<disk, lastGood>>
          /\ pc' = "rename"
     ELSE /\ disk' = File("valid", snapshot) /\ UNCHANGED tmp
          /\ lastGood' = snapshot
          /\ pc' = "written"
  /\ UNCHANGED <<pending, snapshot, retrying, twice, nsaves>> /\ SaveUnchanged

\* os.replace(tmp, file): atomic
SaveRename ==
  /\ pc = "rename" /\ AtomicSave
  /\ disk' = tmp /\ tmp' = Absent /\ lastGood' = snapshot
  /\ pc' = "written"
  /\ UNCHANGED <<pending, snapshot, retrying, twice, nsaves>> /\ SaveUnchanged

\* save_json returned; a brand-new file is written a second time
Written ==
  /\ pc = "written"
  /\ IF twice THEN twice' = FALSE /\ pc' = "begin"
              ELSE UNCHANGED twice /\ pc' = "saved"
  /\ UNCHANGED <<disk, tmp, pending, snapshot, retrying, lastGood, nsaves>> /\ SaveUnchanged

\* back in save_results / _run
Saved ==
  /\ pc = "saved"
  /\ IF retrying
     THEN \* the handler re-raises KeyboardInterrupt: run() returns ("paused")
          /\ pc' = "idle" /\ outcome' = "paused" /\ retrying' = FALSE
          /\ hist' = Append(hist, EndRecord("paused", disk, mem))
          /\ UNCHANGED pending
     ELSE /\ pending' = pending - 1
          /\ pc' = IF pending - 1 > 0 THEN "save" ELSE "advance"
          /\ UNCHANGED <<retrying, outcome, hist>>
  /\ UNCHANGED <<disk, tmp, mem, spec, target, saveFreq, iTrial, cursor, snapshot,
                 twice, runNo, kills, interrupts, lastGood, lastTarget,
                 lastSpec, freshRun, nsteps, nsaves, plan>>

InSave == pc \in {"save", "begin", "open", "write", "close", "rename", "written", "saved"}

(***************************************************************************)
(* KeyboardInterrupt.  Inside save_results (first attempt) it is caught:   *)
(* the save is redone from the start and only then the run stops.  During  *)
(* that retry, or anywhere else, the run stops at once without saving.     *)
(***************************************************************************)
Interrupt ==
  /\ pc \in FaultPCs
  /\ interrupts' = interrupts + 1
  /\ IF InSave /\ pc # "save" /\ ~retrying
     THEN /\ retrying' = TRUE /\ pc' = "save" /\ UNCHANGED <<outcome, hist>>
     ELSE /\ pc' = "idle" /\ outcome' = "paused" /\ retrying' = FALSE
          /\ hist' = Append(hist, EndRecord("paused", disk, mem))
  /\ plan' = NoPlan
  /\ UNCHANGED <<disk, tmp, mem, spec, target, saveFreq, iTrial, cursor, pending,
                 snapshot, twice, runNo, kills, lastGood, lastTarget,
                 lastSpec, freshRun, nsteps, nsaves>>

\* the process dies here and now
Kill ==
  /\ pc \in FaultPCs \cup {"load"}
  /\ kills' = kills + 1
  /\ pc' = "idle" /\ outcome' = "killed" /\ retrying' = FALSE
  /\ hist' = Append(hist, EndRecord("killed", disk, NoData))
  /\ plan' = NoPlan
  /\ UNCHANGED <<disk, tmp, mem, spec, target, saveFreq, iTrial, cursor, pending,
                 snapshot, twice, runNo, interrupts, lastGood, lastTarget,
                 lastSpec, freshRun, nsteps, nsaves>>

Normal ==
  \/ \E t \in 1..MaxTarget : \E sp \in SUBSET Sims : \E sf \in SaveFreqs :
       \E pl \in (IF Planned THEN PlanSet ELSE {NoPlan}) : \E fr \in BOOLEAN : Start(t, sp, sf, pl, fr)
  \/ LoadAll \/ ComputeMin
  \/ StepEE \/ StepSucc \/ StepCS \/ StepIncr
  \/ IterEnd \/ Advance
  \/ SaveEnter \/ SaveBegin \/ SaveOpen \/ SaveWrite \/ SaveClose \/ SaveRename
  \/ Written \/ Saved

Next ==
  IF Planned
  THEN IF FaultDue
       THEN (plan.kind = "kill" /\ Kill) \/ (plan.kind = "interrupt" /\ Interrupt)
       ELSE Normal
  ELSE \/ Normal
       \/ (kills < MaxKills /\ Kill)
       \/ (interrupts < MaxInterrupts /\ Interrupt)

Spec == Init /\ [][Next]_vars

(***************************************************************************)
(* Properties (C12)                                                        *)
(***************************************************************************)
Aligned(r) == Len(r.ee) = r.n /\ Len(r.succ) = r.n /\ Len(r.cs) = r.n
              /\ r.ee = r.succ /\ r.ee = r.cs
NoDupSeq(s) == \A a \in DOMAIN s : \A b \in DOMAIN s : a # b => s[a] # s[b]

\* "completes without error"
Completes == outcome # "error"

\* "exactly the requested number of trials for every simulation, each with
\*  equally long result lists" - in memory and on disk - when a run completes
ExactCounts ==
  outcome = "done" =>
     /\ \A s \in spec : mem[s].n = target /\ Aligned(mem[s])
     /\ disk.kind = "valid"
     /\ \A s \in spec : s \in DOMAIN disk.data /\ disk.data[s] = mem[s]

\* "none is counted twice"
NoDup == \A s \in DOMAIN mem : NoDupSeq(mem[s].ee) /\ NoDupSeq(mem[s].succ) /\ NoDupSeq(mem[s].cs)

\* "results belonging to a different (code, noise, decoder, rate) are never adopted"
NoForeign == \A s \in DOMAIN mem : \A j \in DOMAIN mem[s].ee : mem[s].ee[j][2] = s

\* "all trials contained in the last completed save are kept unchanged as a prefix"
\*  (i) right after loading, every simulation holds exactly what the last
\*      completed save held for it
LoadAdoptsLastGood ==
  pc = "min" => \A s \in spec :
     LET g == IF s \in DOMAIN lastGood THEN lastGood[s] ELSE EmptyRec IN
     IF freshRun THEN mem[s] = g
     ELSE \* same object: memory may hold more than the file, never less
          IsPrefix(g.ee, mem[s].ee) /\ IsPrefix(g.succ, mem[s].succ) /\ IsPrefix(g.cs, mem[s].cs)
\*  (ii) completed saves only ever extend one another
PrefixKept ==
  [][\A s \in DOMAIN lastGood : s \in DOMAIN lastGood' /\ IsPrefix(lastGood[s].ee, lastGood'[s].ee)]_vars

\* what is on disk, when readable, is always a completed save of aligned lists
DiskConsistent ==
  disk.kind = "valid" => \A s \in DOMAIN disk.data : Aligned(disk.data[s])

\* "completes": a running process can always take a step of its own (it is
\* never stuck waiting); with the loop counters strictly increasing, every
\* run that is not stopped again therefore reaches pc = "idle" with
\* outcome "done"
NeverStuck == pc # "idle" => ENABLED Normal

\* Liveness proper (checked by TLC under weak fairness of the process's own
\* steps, no state constraint): every started run ends - completed, paused
\* by an interrupt, or killed - there is no cycle of retries or re-saves in
\* which a run goes on for ever; and a run that starts when no fault can occur
\* any more (the budgets are used up) ends "done".
LiveSpec == Init /\ [][Next]_vars /\ WF_vars(Normal)
EveryRunEnds == (pc # "idle") ~> (pc = "idle")
UndisturbedRunCompletes ==
  [](pc = "load" /\ kills = MaxKills /\ interrupts = MaxInterrupts => <>(pc = "idle" /\ outcome = "done"))

TypeOK ==
  /\ disk.kind \in {"absent", "empty", "torn", "valid"}
  /\ pc \in {"idle", "load", "min", "ee", "succ", "cs", "incr", "iterend", "advance",
             "save", "begin", "open", "write", "close", "rename", "written", "saved"}
  /\ pending \in 0..2

(***************************************************************************)
(* Replay generation (simulation mode, Planned = TRUE): when the last      *)
(* process has ended, print the behaviour: per run its parameters, its     *)
(* fault plan and the state the specification expects afterwards.          *)
(***************************************************************************)
Finished == pc = "idle" /\ runNo = MaxRuns
Emit == ~Finished \/ PrintT(<<"BEHAVIOUR", ToJson(hist)>>)

\* constant values that a .cfg file cannot express
Order2 == <<"s1", "s2">>
Order3 == <<"s1", "s2", "s3">>
=============================================================================
