---------------------------- MODULE SweepToric3D ----------------------------
(***************************************************************************)
(* The sweep rule of SweepDecoder3D on the native 3-D toric lattice        *)
(* (LatticeToric!Toric3D): at every vertex simultaneously, look at the     *)
(* three faces in the sweep direction (+x+y+z); two excited faces => flip  *)
(* the edge they share; three => flip one of the three edges               *)
(* (nondeterministic: the implementation draws it from its seeded RNG).    *)
(* Checked: Tracks (C10) in every state of every behaviour, Z-only, and    *)
(* the guarantee behind C09: every Z error of weight <= MaxW is cleared    *)
(* within MaxSweeps sweeps, whatever the tie-breaks, leaving a stabilizer. *)
(***************************************************************************)
EXTENDS LatticeToric, TLC

CONSTANTS LX, LY, LZ, MaxW, MaxSweeps, Update

L == <<LX, LY, LZ>>
H == LX * LY * LZ
Code == Toric3D(L)
Faces == (H + 1)..(4 * H)
Vertices == { S3(L)[i] : i \in 1..H }

ZOn(E) == Op({}, E)
Boundary(e) == { f \in Faces : Symp(Code.stabs[f], ZOn({e})) = 1 }
FaceSyndrome(E) == { f \in Faces : Symp(Code.stabs[f], ZOn(E)) = 1 }
RECURSIVE XorB(_)
XorB(F) == IF F = {} THEN {} ELSE LET e == CHOOSE e \in F : TRUE IN SDiff(Boundary(e), XorB(F \ {e}))

XFace(v) == SIdx3(L, <<v[1], v[2] + 1, v[3] + 1>>)
YFace(v) == SIdx3(L, <<v[1] + 1, v[2], v[3] + 1>>)
ZFace(v) == SIdx3(L, <<v[1] + 1, v[2] + 1, v[3]>>)
XEdge(v) == QIdx3(L, <<v[1] + 1, v[2], v[3]>>)
YEdge(v) == QIdx3(L, <<v[1], v[2] + 1, v[3]>>)
ZEdge(v) == QIdx3(L, <<v[1], v[2], v[3] + 1>>)

Options(signs, v) ==
    LET xf == XFace(v) \in signs  yf == YFace(v) \in signs  zf == ZFace(v) \in signs IN
    IF xf /\ yf /\ zf THEN {XEdge(v), YEdge(v), ZEdge(v)}
    ELSE IF yf /\ zf THEN {XEdge(v)}
    ELSE IF xf /\ zf THEN {YEdge(v)}
    ELSE IF xf /\ yf THEN {ZEdge(v)}
    ELSE {}

VARIABLES err, signs, corr, k
vars == <<err, signs, corr, k>>

LightErrors == {{}} \cup { {e} : e \in 0..(Code.n - 1) }
               \cup (IF MaxW >= 2 THEN { {e, f} : e \in 0..(Code.n - 1), f \in 0..(Code.n - 1) } ELSE {})
Init == /\ err \in LightErrors
        /\ corr = {} /\ k = 0
        /\ signs = FaceSyndrome(err)

Active == { v \in Vertices : Options(signs, v) # {} }
SweepMove ==
    /\ signs # {} /\ k < MaxSweeps
    /\ \E ch \in [Active -> 0..(Code.n - 1)] :
          /\ \A v \in Active : ch[v] \in Options(signs, v)
          /\ LET F == { ch[v] : v \in Active } IN
             /\ signs' = SDiff(signs, XorB(F))
             /\ corr' = (IF Update = "toggle" THEN SDiff(corr, F) ELSE corr \cup F)
    /\ k' = k + 1 /\ UNCHANGED err
Next == SweepMove

Tracks == signs = FaceSyndrome(SDiff(err, corr))
\* each vertex proposes its own +x, +y, +z edge: no edge is proposed twice in one sweep
\* the decoder's guarantee for light errors: cleared in time, residual is trivial
Cleared == k = MaxSweeps => signs = {}
ResidualTrivial == signs = {} => LET r == ZOn(SDiff(err, corr)) IN
                                 InCodespace(Code, r) /\ Effect(Code, r) = NoEffect
=============================================================================
