INIT Init
NEXT Next
INVARIANT MenuConsistent
INVARIANT EmitStep
CONSTRAINT SmallL
