----------------------------- MODULE C20_Data -----------------------------
(***************************************************************************)
(* C20, spec -> code: every request emitted by Gui.tla was posted to the   *)
(* Flask test client; a record carries what came back next to what the     *)
(* library gives for the same inputs.                                      *)
(***************************************************************************)
EXTENDS DataDriven

VARIABLE i
Init == i = 0
Next == i < NRecs /\ i' = i + 1

FailedCodeData(r) ==
     (IF r.status = 200 THEN {} ELSE {"code_data_request_succeeds"})
\* the i-th description must be the library's own representation of the
\* i-th qubit / stabilizer (compared as whole JSON values)
\cup (IF r.status # 200 \/ (Len(r.qubits) = r.n /\ r.qubits = r.lib_qubits)
      THEN {} ELSE {"one_description_per_qubit_in_index_order"})
\cup (IF r.status # 200 \/ (Len(r.stabilizers) = r.m /\ r.stabilizers = r.lib_stabilizers)
      THEN {} ELSE {"one_description_per_stabilizer_in_index_order"})
\cup (IF r.status # 200 \/ (\A j \in DOMAIN r.qubit_complete : r.qubit_complete[j])
      THEN {} ELSE {"qubit_description_complete"})
\cup (IF r.status # 200 \/ (\A j \in DOMAIN r.stab_complete : r.stab_complete[j])
      THEN {} ELSE {"stabilizer_description_complete"})
\* colours and opacity are those the picture definition (gui-config.json)
\* gives for the REQUESTED picture
\cup (IF r.status # 200 \/ r.drawn_as_defined THEN {} ELSE {"drawn_as_the_requested_picture_defines"})
\cup (IF r.status # 200 \/ r.H = r.lib_H THEN {} ELSE {"parity_check_matrix_identical_to_library"})
\cup (IF r.status # 200 \/ (r.lx = r.lib_lx /\ r.lz = r.lib_lz) THEN {} ELSE {"logicals_identical_to_library"})

FailedNames(r) ==
     (IF r.status = 200 /\ r.decoders = r.expected_decoders THEN {} ELSE {"decoders_offered_are_exactly_those_declaring_support"})
\cup (IF r.dstatus = 200 /\ r.deformations = r.expected_deformations THEN {} ELSE {"deformations_offered_are_the_class_deformations"})

FailedDecode(r) ==
     \* the request must succeed whenever the library decoder itself accepts the inputs
     (IF r.status = 200 \/ r.lib_raised # "" THEN {} ELSE {"decode_request_succeeds"})
\cup (IF r.status # 200 \/ r.lib_raised # "" \/ (r.x = r.lib_x /\ r.z = r.lib_z) THEN {} ELSE {"decode_returns_library_decoder_result"})
\cup (IF r.estatus = 200 THEN {} ELSE {"new_errors_request_succeeds"})
\cup (IF r.estatus # 200 \/ (Len(r.letters) = r.n /\ r.elen = 2 * r.n /\ r.ebinary) THEN {} ELSE {"new_errors_binary_of_length_2n"})
\cup (IF r.estatus # 200 \/ \A q \in DOMAIN r.letters : r.letters[q] \in AsSet(r.allowed_letters[q])
      THEN {} ELSE {"new_errors_supported_on_the_models_paulis"})

\* the same request answered by a backend whose process had PANQEC_ROOT_DIR
\* preset before the library was imported: same answer as in a clean process
FailedEnvironment(r) ==
     (IF r.status = 200 THEN {} ELSE {"code_data_request_succeeds_whatever_the_environment"})
\cup (IF r.status # 200 \/ r.clean = r.preset THEN {} ELSE {"pictures_are_those_of_the_package_served"})

Failed(r) == CASE r.kind = "codedata" -> FailedCodeData(r)
               [] r.kind = "names" -> FailedNames(r)
               [] r.kind = "decode" -> FailedDecode(r)
               [] r.kind = "environment" -> FailedEnvironment(r)

Judged == i = 0 \/ Report(Recs[i].id, Failed(Recs[i]))
Post == PrintT(<<"CHECKED", TLCGet("distinct") - 1>>)
=============================================================================
