CONSTANT Den = 6
INIT Init
NEXT Next
INVARIANT Judged
POSTCONDITION Post
