------------------------------ MODULE GenInput ------------------------------
(***************************************************************************)
(* `panqec generate-input` (cli.generate_input, cli.read_range_input,      *)
(* cli.read_bias_ratios, utils.get_direction_from_bias_ratio).  C19.       *)
(*                                                                         *)
(* Error rates live on a decimal grid and are written in integer units     *)
(* (1 unit = 0.001); bias ratios are rationals <<a, b>> = a/b, with        *)
(* <<1, 0>> standing for `inf`; directions are triples of rationals.       *)
(***************************************************************************)
EXTENDS Naturals, Sequences, FiniteSets

\* min:max:step  ->  the arithmetic progression from min to max inclusive,
\* nothing beyond max
RangeUnits(min, max, step) ==
    IF max < min THEN {} ELSE { min + k * step : k \in 0..((max - min) \div step) }

Rates(prob) == CASE prob.kind = "single" -> {prob.vals[1]}
                 [] prob.kind = "list"   -> { prob.vals[j] : j \in DOMAIN prob.vals }
                 [] prob.kind = "range"  -> RangeUnits(prob.min, prob.max, prob.step)

\* bias ratio eta = a/b : r_bias = eta / (1 + eta) = a / (a + b); the other
\* two share the rest equally.  eta = inf (b = 0) gives r_bias = 1.
RBias(eta) == <<eta[1], eta[1] + eta[2]>>
ROther(eta) == <<eta[2], 2 * (eta[1] + eta[2])>>
Direction(bias, eta) ==
    [x |-> IF bias = "X" THEN RBias(eta) ELSE ROther(eta),
     y |-> IF bias = "Y" THEN RBias(eta) ELSE ROther(eta),
     z |-> IF bias = "Z" THEN RBias(eta) ELSE ROther(eta)]

\* rational arithmetic on <<num, den>>
RAdd(p, q) == <<p[1] * q[2] + q[1] * p[2], p[2] * q[2]>>
REq(p, q) == p[1] * q[2] = q[1] * p[2]
SumsToOne(d) == REq(RAdd(RAdd(d.x, d.y), d.z), <<1, 1>>)

\* a size written as 1..3 numbers: L_y and L_z default to L_x
FullSize(s) == <<s[1], IF Len(s) >= 2 THEN s[2] ELSE s[1], IF Len(s) = 3 THEN s[3] ELSE s[1]>>

\* what the command must produce: one specification per bias ratio, each
\* holding sizes x rates with that ratio's direction
Requested(a) == { <<si, ei, r>> : si \in DOMAIN a.sizes, ei \in DOMAIN a.etas, r \in Rates(a.prob) }
=============================================================================
