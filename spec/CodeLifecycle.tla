--------------------------- MODULE CodeLifecycle ---------------------------
(***************************************************************************)
(* Life-cycle of one StabilizerCode object (C08, last sentence):           *)
(*   "A deformation is always applied to the undeformed code, so its       *)
(*    result does not depend on earlier deformations of the same object or *)
(*    on which derived data were computed beforehand."                     *)
(*                                                                         *)
(* State: the sequence of deformations in force (`applied`; the empty      *)
(* sequence is the undeformed code) and, per lazily cached property, the   *)
(* `applied` value it was computed under (or Absent).                      *)
(* Actions mirror the code: Access(p) fills a cache from the deformation   *)
(* in force; Deform(d) re-runs __init__ (clearing the caches listed in     *)
(* ClearedOnDeform - all of them in the implementation) and wraps the      *)
(* UNDEFORMED primitives (Compose = FALSE).  The CONSTANTS allow TLC to    *)
(* show that either deviation (a cache that survives deform(); wrapping    *)
(* the already wrapped primitives) breaks the invariants - a negative      *)
(* control proving the invariants are not vacuous.                         *)
(* `hist` records the actions taken so that behaviours can be replayed     *)
(* into a real object (spec -> code); it is hidden by the VIEW when the    *)
(* graph is explored exhaustively.                                         *)
(***************************************************************************)
EXTENDS Naturals, Sequences, FiniteSets, TLC, Json

CONSTANTS Props,            \* names of the lazily cached properties
          Deformations,     \* deformation variants offered (strings)
          ClearedOnDeform,  \* caches that deform() resets
          Compose,          \* TRUE: deform() wraps the current primitives
          MaxDeforms, Depth

Absent == <<"absent">>

VARIABLES applied, cachedUnder, hist, ndef
vars == <<applied, cachedUnder, hist, ndef>>
view == <<applied, cachedUnder, ndef>>

Init == /\ applied = <<>>
        /\ cachedUnder = [p \in Props |-> Absent]
        /\ hist = <<>>
        /\ ndef = 0

Access(p) ==
    /\ cachedUnder' = IF cachedUnder[p] = Absent
                      THEN [cachedUnder EXCEPT ![p] = applied]
                      ELSE cachedUnder
    /\ hist' = Append(hist, <<"access", p>>)
    /\ UNCHANGED <<applied, ndef>>

Deform(d) ==
    /\ ndef < MaxDeforms
    /\ applied' = IF Compose THEN Append(applied, d) ELSE <<d>>
    /\ cachedUnder' = [p \in Props |-> IF p \in ClearedOnDeform THEN Absent ELSE cachedUnder[p]]
    /\ hist' = Append(hist, <<"deform", d>>)
    /\ ndef' = ndef + 1

Next == (\E p \in Props : Access(p)) \/ (\E d \in Deformations : Deform(d))

\* every cached value was computed under the deformation now in force
NoStaleCache == \A p \in Props : cachedUnder[p] = Absent \/ cachedUnder[p] = applied
\* at most one relabelling is in force: the last one requested
LastDeformWins == Len(applied) <= 1

\* simulation mode: print each behaviour of length Depth as one JSON line
Emit == Len(hist) < Depth \/ PrintT(<<"BEHAVIOUR", ToJson(hist)>>)
Bound == Len(hist) <= Depth
=============================================================================
