CONSTANTS K = 4
          KL = 2
INIT Init
NEXT Next
INVARIANT ProductSize
INVARIANT BlocksDisjoint
INVARIANT SelfConsistent
POSTCONDITION Post
