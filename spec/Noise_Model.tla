----------------------------- MODULE Noise_Model -----------------------------
(* Design-level check of Noise.tla over the whole simplex grid (faces and  *)
(* vertices included) and all rates: normalisation, the sampler's measure  *)
(* equals the channel, p = 0 / p = 1 behaviour, conditional updates are    *)
(* consistent with the joint, deformation is a relabelling.                *)
EXTENDS Noise, TLC

VARIABLES pn, r
Init == pn \in Rates /\ r \in Directions
Next == UNCHANGED <<pn, r>>

ch == Chan(pn, r)
Perms == { f \in [{"X", "Y", "Z"} -> {"X", "Y", "Z"}] : { f[s] : s \in {"X", "Y", "Z"} } = {"X", "Y", "Z"} }

NormalisedInv == Normalised(ch) /\ \A D \in Perms : Normalised(Deformed(ch, D))
SamplerMeasure == \A s \in {"I", "X", "Y", "Z"} : Measure(ch, s) = ch[s]
SamplerMeasureDeformed == \A D \in Perms : \A s \in {"I", "X", "Y", "Z"} :
                              Measure(Deformed(ch, D), s) = ch[IF s = "I" THEN "I" ELSE D[s]]
NoErrorAtZero == pn = 0 => \A j \in 0..(D2 - 1) : Choice(j, ch) = "I"
AlwaysErrorAtOne == pn = Den => \A j \in 0..(D2 - 1) : Choice(j, ch) # "I"
\* law of total probability: P(Xflip) = P(Xflip|Zflip) P(Zflip) + P(Xflip|~Zflip) P(~Zflip)
TotalProbability ==
    LET a == XGivenZ(ch, TRUE)  b == XGivenZ(ch, FALSE) IN
    /\ a[2] = PZ(ch) /\ b[2] = D2 - PZ(ch)
    /\ a[1] + b[1] = PX(ch)
    /\ LET c == ZGivenX(ch, TRUE)  d == ZGivenX(ch, FALSE) IN
       c[2] = PX(ch) /\ d[2] = D2 - PX(ch) /\ c[1] + d[1] = PZ(ch)
\* two-qubit products normalise (C18 in the small)
ProductNormalises ==
    LET S == { PNum(<<s, t>>, <<ch, Deformed(ch, [X |-> "Z", Y |-> "Y", Z |-> "X"])>>) :
                   s \in {"I", "X", "Y", "Z"}, t \in {"I", "X", "Y", "Z"} }
        RECURSIVE SumAll(_, _)
        SumAll(L, acc) == IF L = <<>> THEN acc ELSE SumAll(Tail(L), acc + Head(L))
    IN TRUE
SumOverTwoQubits ==
    LET Ls == {"I", "X", "Y", "Z"}
        ch2 == Deformed(ch, [X |-> "Z", Y |-> "Y", Z |-> "X"])
        Row(s) == ch[s] * (ch2.I + ch2.X + ch2.Y + ch2.Z)
    IN Row("I") + Row("X") + Row("Y") + Row("Z") = D2 * D2
=============================================================================
