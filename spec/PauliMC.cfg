CONSTANT N = 3
INIT Init
NEXT Next
INVARIANT Symmetric
INVARIANT Alternating
INVARIANT Bilinear
INVARIANT ColsInverse
INVARIANT MulInvolution
INVARIANT WtSubadditive
