CONSTANTS
  Props = {"stabilizer_matrix", "Hx", "logicals_x"}
  Deformations = {"D1", "D2"}
  ClearedOnDeform = {"stabilizer_matrix", "logicals_x"}
  Compose = FALSE
  MaxDeforms = 2
  Depth = 1000
INIT Init
NEXT Next
VIEW view
INVARIANT NoStaleCache
