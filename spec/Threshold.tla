----------------------------- MODULE Threshold -----------------------------
(***************************************************************************)
(* Threshold estimation by finite-size scaling (panqec.analysis:           *)
(* calculate_thresholds -> get_p_th_nearest -> fit_fss_params ->           *)
(* get_fit_status), property C16.                                          *)
(*                                                                         *)
(* The optimiser itself (scipy curve_fit over the reals + bootstrap) is    *)
(* observed, not modelled.  What TLA+ owns:                                *)
(*  - the documented ansatz  f = A + B x + C x^2,  x = (p - p_th) d^nu, in *)
(*    exact integer arithmetic for nu = 1 (Counts): the planted data sets  *)
(*    handed to the estimator provably lie on the ansatz;                  *)
(*  - the box of planted cases and the layouts (row orders, splits over    *)
(*    files, path orders) - the quantifier of C16;                         *)
(*  - the case analysis of get_fit_status (Status), transcribed rule by    *)
(*    rule, enumerated exhaustively on a grid of entries;                  *)
(*  - C16's clauses on the reported numbers (C16_Data.tla).                *)
(*                                                                         *)
(* Units: p_th in 1e-4, offsets in 1e-3 of p_th, A B C in 1e-2, nu in 1e-2,*)
(* n = trials per data point.  A rate is  p = p_th (1000 + off) / 1e7.     *)
(***************************************************************************)
EXTENDS Integers, Sequences, FiniteSets, TLC

Abs(v) == IF v < 0 THEN -v ELSE v

\* ------------------------------------------------------------- ansatz ----
\* x in units of 1e-5 for nu = 1:  x = (p - p_th) d = p_th off d / 1e7
X5(c, off, d) == (c.pth * off * d) \div 100
\* n f for n = 10 000, rounded down:  100 A + B x5 / 1000 + C x5^2 / 1e8
\* (x^2 / 1000 is computed as (x div 4)^2 * 2 div 125 to stay inside TLC's 32-bit
\* integers; the error is below 2 counts of 10 000 on the whole box)
CountsAt(c, x) == LET q == x \div 4 IN
                  100 * c.A + ((c.B * x) \div 1000) + ((((((q * q) \div 125) * 2) \div 100) * c.C) \div 1000)
Counts(c, off, d) == CountsAt(c, X5(c, off, d))

Points(c) == { <<d, off>> : d \in { c.ds[j] : j \in DOMAIN c.ds }, off \in { c.offs[j] : j \in DOMAIN c.offs } }
\* Well conditioned: over the whole range of the scaling variable every
\* planted logical error rate is inside (2%, 90%) and the ansatz is strictly
\* increasing (so the curves of different distances cross at p_th only).
\* XMax over-approximates |x| for every nu of the box (d^1.25 <= 2 d for d <= 16).
MaxOf(S) == CHOOSE m \in S : \A y \in S : y <= m
XMax(c) == LET x == X5(c, MaxOf({ c.offs[j] : j \in DOMAIN c.offs }), MaxOf({ c.ds[j] : j \in DOMAIN c.ds }))
           IN IF c.nu > 100 THEN 2 * x ELSE x
WellConditioned(c) ==
    /\ CountsAt(c, -XMax(c)) > 200
    /\ CountsAt(c, XMax(c)) < 9000
    /\ c.B * 100000 > 2 * c.C * XMax(c)

\* ------------------------------------------------------------ the box ----
Offs7 == <<-150, -100, -50, 0, 50, 100, 150>>
Offs9 == <<-200, -150, -100, -50, 0, 50, 100, 150, 200>>
Case(pth, nu, A, B, C, ds, offs, fam) ==
    [pth |-> pth, nu |-> nu, A |-> A, B |-> B, C |-> C, ds |-> ds, offs |-> offs, family |-> fam, n |-> 10000]

RawBox(big) ==
    { Case(pth, nu, A, B, C, ds, offs, fam) :
        pth \in (IF big THEN {500, 1000, 1500, 2000} ELSE {500, 1000, 1500}),
        nu \in {80, 100, 125},
        A \in (IF big THEN {10, 20, 30} ELSE {10, 30}),
        B \in (IF big THEN {100, 150, 200} ELSE {100, 200}),
        C \in (IF big THEN {50, 200, 400} ELSE {50, 400}),
        \* two-digit sizes: the code labels then sort differently from the distances
        ds \in { <<5, 7, 9>>, <<3, 5, 7, 9>>, <<6, 10, 14>>, <<8, 10, 12>> },
        offs \in {Offs7, Offs9},
        fam \in {"RotatedPlanar2DCode"} }
    \cup
    { Case(pth, 100, 20, 150, 200, <<4, 6, 8>>, Offs7, "Toric2DCode") : pth \in {500, 1000, 1500} }

Box(big) == { c \in RawBox(big) : WellConditioned(c) }

\* which part of the data the fit uses: everything, the automatic truncation
\* heuristic, or a manual window that drops the outermost rate on each side
Modes == {"all", "auto", "override"}

\* layouts: how the rows reach the estimator.  perm(i) = (a i + b) mod m
Layouts ==
    { [kind |-> "one_file", a |-> 1, b |-> 0, parts |-> 1] }
    \cup { [kind |-> "one_file", a |-> a, b |-> b, parts |-> 1] : a \in {-1, 5}, b \in {0, 3} }
    \cup { [kind |-> "files", a |-> a, b |-> 1, parts |-> k] : a \in {1, -1, 5}, k \in {2, 3} }
    \cup { [kind |-> "split_trials", a |-> a, b |-> 2, parts |-> 2] : a \in {1, -1} }
    \* the same logical error rates, but a share of the failed trials (growing
    \* with the distance) ended outside the code space
    \cup { [kind |-> "out_of_codespace", a |-> a, b |-> 0, parts |-> 1] : a \in {1, -1} }
    \* a queued simulation (another distance) with zero trials in the same file
    \cup { [kind |-> "with_queued_simulation", a |-> a, b |-> 0, parts |-> 1] : a \in {1, -1} }

\* -------------------------------------------------- get_fit_status -------
\* Entry values are in 1e-6; NaN is a marker.  On the grid used here two
\* values are either equal or differ by >= 1e-3, so numpy.isclose (rtol 1e-5,
\* atol 1e-8) coincides with equality.
NaN == -999999999
One == 1000000
IsNaN(v) == v = NaN
Status(e) ==
    IF e.params_nan THEN "Curve fitting failed."
    ELSE IF IsNaN(e.th) \/ IsNaN(e.left) \/ IsNaN(e.right) \/ IsNaN(e.se)
         THEN "NaN threshold estimate or uncertainty."
    ELSE IF e.left = e.right THEN "Zero CI uncertainty."
    ELSE IF e.se = 0 THEN "Zero SE uncertainty."
    ELSE IF \E v \in {e.th, e.left, e.right, e.se} : v < 0 \/ v > One
         THEN "Invalid threshold value."
    ELSE IF e.A < 0 \/ e.A > One THEN "Invalid logical error rate at threshold."
    ELSE IF e.th < e.pl THEN "Threshold left of leftmost data point used."
    ELSE IF e.th > e.pr THEN "Threshold right of rightmost data point used."
    ELSE IF e.A = 0 /\ e.bc_zero THEN "Zero logical error rate fit"
    ELSE "success"

\* what "flagged successful" has to mean (C16): a finite, non-degenerate
\* estimate inside [0,1] and inside the data range, with a plausible fit
Plausible(e) ==
    /\ ~e.params_nan
    /\ ~(IsNaN(e.th) \/ IsNaN(e.left) \/ IsNaN(e.right) \/ IsNaN(e.se))
    /\ e.left # e.right /\ e.se # 0
    /\ \A v \in {e.th, e.left, e.right, e.se} : v >= 0 /\ v <= One
    /\ e.A >= 0 /\ e.A <= One
    /\ e.th >= e.pl /\ e.th <= e.pr
    /\ ~(e.A = 0 /\ e.bc_zero)

Entries ==
    [params_nan : BOOLEAN,
     th : {NaN, -100000, 50000, 100000, 1200000},
     left : {NaN, -50000, 90000, 100000},
     right : {NaN, 100000, 110000, 1500000},
     se : {NaN, 0, 1, 10000, 2000000},      \* 1 = the smallest positive uncertainty on the grid (3e-7)
     A : {-100000, 0, 200000, 1500000},
     bc_zero : BOOLEAN,
     pl : {80000, 120000},
     pr : {90000, 150000}]
=============================================================================
