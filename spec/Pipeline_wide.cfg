CONSTANTS
  MaxI = 4
  MaxN = 3
  MaxC = 3
  MaxT = 9
  MinN = 1
  MinC = 1
  MaxSteps = 3
INIT Init
NEXT Next
INVARIANT TypeOK
INVARIANT Conservation
INVARIANT NeverTooMany
INVARIANT NoTaskBeyondItsLargestShare
PROPERTY Monotone
