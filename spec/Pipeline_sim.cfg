CONSTANTS
  MaxI = 4
  MaxN = 3
  MaxC = 3
  MaxT = 12
  MinN = 1
  MinC = 1
  MaxSteps = 4
INIT Init
NEXT Next
INVARIANT TypeOK
INVARIANT Conservation
INVARIANT NeverTooMany
INVARIANT NoTaskBeyondItsLargestShare
CONSTRAINT Emit
CONSTRAINT AtMostOneExtend
