CONSTANTS
  MaxI = 4
  MaxN = 3
  MaxC = 3
  MaxT = 12
  MaxSteps = 4
INIT Init
NEXT Next
INVARIANT TypeOK
INVARIANT Conservation
INVARIANT NeverTooMany
CONSTRAINT Emit
CONSTRAINT AtMostOneExtend
