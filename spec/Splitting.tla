----------------------------- MODULE Splitting -----------------------------
(***************************************************************************)
(* The Metropolis step of the splitting method                             *)
(* (SplittingSimulation.get_next_error), C18's last clause: "the           *)
(* Metropolis step therefore uses true likelihood ratios".                 *)
(*                                                                         *)
(* Dyadic channels: qubit q gives Pauli s the probability 2^-Ex[q][s]      *)
(* (Inf = impossible), so the likelihood of an error is 2^-Bits(e) with    *)
(* Bits an integer sum and every likelihood ratio is an exact power of 2.  *)
(* One step, from the current error cur (a sequence of letters):           *)
(*   - a qubit q is drawn uniformly, a Pauli s uniformly among the Paulis  *)
(*     the channel allows on q;  new = cur with s multiplied in at q;      *)
(*   - the proposal is accepted by a coin of bias                          *)
(*       2^-AcceptBits(cur, new),  AcceptBits = max(0, Bits(new)-Bits(cur))*)
(*   - an accepted proposal is kept only if it still fails when decoded;   *)
(*   - the step reports the likelihood of the error it keeps.              *)
(***************************************************************************)
EXTENDS Naturals, Integers, Sequences, FiniteSets

Inf == 100000
Letters == {"I", "X", "Y", "Z"}
\* Pauli multiplication up to phase
Times(a, b) ==
    CASE a = "I" -> b [] b = "I" -> a [] a = b -> "I"
      [] {a, b} = {"X", "Y"} -> "Z" [] {a, b} = {"Y", "Z"} -> "X" [] {a, b} = {"X", "Z"} -> "Y"

Allowed(Ex, q) == { s \in {"X", "Y", "Z"} : Ex[q][s] < Inf }
Propose(cur, q, s) == [cur EXCEPT ![q] = Times(cur[q], s)]

RECURSIVE BitsUpTo(_, _, _)
BitsUpTo(Ex, e, q) == IF q = 0 THEN 0 ELSE Ex[q][e[q]] + BitsUpTo(Ex, e, q - 1)
Bits(Ex, e) == BitsUpTo(Ex, e, Len(e))
Possible(Ex, e) == \A q \in DOMAIN e : Ex[q][e[q]] < Inf

AcceptBits(Ex, cur, new) == LET d == Bits(Ex, new) - Bits(Ex, cur) IN IF d > 0 THEN d ELSE 0
Keep(cur, new, coin, failsNew) == IF coin /\ failsNew THEN new ELSE cur
=============================================================================
