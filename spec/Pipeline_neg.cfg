CONSTANTS
  MaxI = 1
  MaxN = 1
  MaxC = 3
  MaxT = 6
  MinN = 1
  MinC = 1
  MaxSteps = 1000000
INIT Init
NEXT Next
VIEW View
INVARIANT ExtensionKeepsTotal
