---------------------------- MODULE LatticeToric ----------------------------
(***************************************************************************)
(* Native TLA+ models of the toric lattices (Toric2DCode, Toric3DCode):    *)
(* qubit and stabilizer coordinates in the library's index order, the      *)
(* stabilizer and logical operators, qubit axes and the XZZX / XY          *)
(* relabellings.  A size is a tuple <<Lx, Ly>> or <<Lx, Ly, Lz>>.          *)
(* The models are checked on their own (ValidCode, distance, relabelling   *)
(* theorems, for every size up to a bound) and are compared with the       *)
(* implementation's exports coordinate by coordinate.  A mismatch with the *)
(* native model is reported as a NOTE, never as a violation: a different   *)
(* but valid representative is legal; the property predicates decide.      *)
(***************************************************************************)
EXTENDS Pauli

Mod(a, m) == ((a % m) + m) % m

\* ---------------------------------------------------------------- 2-D ----
\* x-edges (odd, even) first, x outer / y inner, then y-edges (even, odd)
Q2(L) == [i \in 1..(2 * L[1] * L[2]) |->
            LET j == i - 1  h == L[1] * L[2] IN
            IF j < h THEN <<2 * (j \div L[2]) + 1, 2 * (j % L[2])>>
            ELSE <<2 * ((j - h) \div L[2]), 2 * ((j - h) % L[2]) + 1>>]
QIdx2(L, c) == LET x == Mod(c[1], 2 * L[1])  y == Mod(c[2], 2 * L[2]) IN
               IF x % 2 = 1 THEN ((x - 1) \div 2) * L[2] + (y \div 2)
               ELSE L[1] * L[2] + (x \div 2) * L[2] + ((y - 1) \div 2)
\* vertices (even, even) first, then faces (odd, odd)
S2(L) == [i \in 1..(2 * L[1] * L[2]) |->
            LET j == i - 1  h == L[1] * L[2] IN
            IF j < h THEN <<2 * (j \div L[2]), 2 * (j % L[2])>>
            ELSE <<2 * ((j - h) \div L[2]) + 1, 2 * ((j - h) % L[2]) + 1>>]
Nbr2(L, c) == { QIdx2(L, <<c[1] + d[1], c[2] + d[2]>>) : d \in {<<-1, 0>>, <<1, 0>>, <<0, -1>>, <<0, 1>>} }
Stab2(L, c) == IF c[1] % 2 = 0 THEN Op({}, Nbr2(L, c)) ELSE Op(Nbr2(L, c), {})
Axis2(c) == IF c[1] % 2 = 1 THEN "x" ELSE "y"

Toric2D(L) ==
  [n |-> 2 * L[1] * L[2], k |-> 2,
   stabs |-> [i \in 1..(2 * L[1] * L[2]) |-> Stab2(L, S2(L)[i])],
   lx |-> << Op({ QIdx2(L, <<2 * i + 1, 0>>) : i \in 0..(L[1] - 1) }, {}),
             Op({ QIdx2(L, <<0, 2 * j + 1>>) : j \in 0..(L[2] - 1) }, {}) >>,
   lz |-> << Op({}, { QIdx2(L, <<1, 2 * j>>) : j \in 0..(L[2] - 1) }),
             Op({}, { QIdx2(L, <<2 * i, 1>>) : i \in 0..(L[1] - 1) }) >>]
Distance2(L) == IF L[1] < L[2] THEN L[1] ELSE L[2]

\* ---------------------------------------------------------------- 3-D ----
\* x-edges (o,e,e), y-edges (e,o,e), z-edges (e,e,o); x outer, y, z inner
Q3(L) == [i \in 1..(3 * L[1] * L[2] * L[3]) |->
            LET j == i - 1  h == L[1] * L[2] * L[3]
                b == j \div h  r == j % h
                a == r \div (L[2] * L[3])  m == (r \div L[3]) % L[2]  c == r % L[3]
            IN CASE b = 0 -> <<2 * a + 1, 2 * m, 2 * c>>
                 [] b = 1 -> <<2 * a, 2 * m + 1, 2 * c>>
                 [] b = 2 -> <<2 * a, 2 * m, 2 * c + 1>>]
QIdx3(L, c) ==
    LET x == Mod(c[1], 2 * L[1])  y == Mod(c[2], 2 * L[2])  z == Mod(c[3], 2 * L[3])
        h == L[1] * L[2] * L[3]
        b == IF x % 2 = 1 THEN 0 ELSE IF y % 2 = 1 THEN 1 ELSE 2
    IN b * h + (x \div 2) * L[2] * L[3] + (y \div 2) * L[3] + (z \div 2)
IsQubit3(c) == (c[1] % 2) + (c[2] % 2) + (c[3] % 2) = 1
Axis3(c) == IF c[1] % 2 = 1 THEN "x" ELSE IF c[2] % 2 = 1 THEN "y" ELSE "z"
Deltas3 == { <<1,0,0>>, <<-1,0,0>>, <<0,1,0>>, <<0,-1,0>>, <<0,0,1>>, <<0,0,-1>> }
Wrap3(L, c) == <<Mod(c[1], 2 * L[1]), Mod(c[2], 2 * L[2]), Mod(c[3], 2 * L[3])>>
Nbr3(L, c) == { QIdx3(L, <<c[1] + d[1], c[2] + d[2], c[3] + d[3]>>) :
                  d \in { e \in Deltas3 : IsQubit3(Wrap3(L, <<c[1] + e[1], c[2] + e[2], c[3] + e[3]>>)) } }
\* vertices (e,e,e): Z on the six edges; faces (one even, two odd): X on the four edges
Stab3(L, c) == IF (c[1] % 2) + (c[2] % 2) + (c[3] % 2) = 0 THEN Op({}, Nbr3(L, c)) ELSE Op(Nbr3(L, c), {})
\* vertices (e,e,e); xy faces (o,o,e); yz faces (e,o,o); xz faces (o,e,o)
S3(L) == [i \in 1..(4 * L[1] * L[2] * L[3]) |->
            LET j == i - 1  h == L[1] * L[2] * L[3]
                b == j \div h  r == j % h
                a == r \div (L[2] * L[3])  m == (r \div L[3]) % L[2]  c == r % L[3]
            IN CASE b = 0 -> <<2 * a, 2 * m, 2 * c>>
                 [] b = 1 -> <<2 * a + 1, 2 * m + 1, 2 * c>>
                 [] b = 2 -> <<2 * a, 2 * m + 1, 2 * c + 1>>
                 [] b = 3 -> <<2 * a + 1, 2 * m, 2 * c + 1>>]
SIdx3(L, c) ==
    LET x == Mod(c[1], 2 * L[1])  y == Mod(c[2], 2 * L[2])  z == Mod(c[3], 2 * L[3])
        h == L[1] * L[2] * L[3]
        b == IF (x % 2) + (y % 2) + (z % 2) = 0 THEN 0
             ELSE IF z % 2 = 0 THEN 1 ELSE IF x % 2 = 0 THEN 2 ELSE 3
    IN b * h + (x \div 2) * L[2] * L[3] + (y \div 2) * L[3] + (z \div 2) + 1      \* 1-based

Toric3D(L) ==
  [n |-> 3 * L[1] * L[2] * L[3], k |-> 3,
   stabs |-> [i \in 1..(4 * L[1] * L[2] * L[3]) |-> Stab3(L, S3(L)[i])],
   lx |-> << Op({ QIdx3(L, <<2 * i + 1, 0, 0>>) : i \in 0..(L[1] - 1) }, {}),
             Op({ QIdx3(L, <<0, 2 * j + 1, 0>>) : j \in 0..(L[2] - 1) }, {}),
             Op({ QIdx3(L, <<0, 0, 2 * m + 1>>) : m \in 0..(L[3] - 1) }, {}) >>,
   lz |-> << Op({}, { QIdx3(L, <<1, 2 * j, 2 * m>>) : j \in 0..(L[2] - 1), m \in 0..(L[3] - 1) }),
             Op({}, { QIdx3(L, <<2 * i, 1, 2 * m>>) : i \in 0..(L[1] - 1), m \in 0..(L[3] - 1) }),
             Op({}, { QIdx3(L, <<2 * i, 2 * j, 1>>) : i \in 0..(L[1] - 1), j \in 0..(L[2] - 1) }) >>]
Distance3(L) == LET a == IF L[1] < L[2] THEN L[1] ELSE L[2] IN IF a < L[3] THEN a ELSE L[3]

\* relabellings offered by the toric codes
XZZX2(L, axis) == [q \in 0..(2 * L[1] * L[2] - 1) |-> IF Axis2(Q2(L)[q + 1]) = axis THEN Hadamard ELSE IdPerm]
XY2(L) == [q \in 0..(2 * L[1] * L[2] - 1) |-> YZSwap]
XZZX3(L, axis) == [q \in 0..(3 * L[1] * L[2] * L[3] - 1) |-> IF Axis3(Q3(L)[q + 1]) = axis THEN Hadamard ELSE IdPerm]
DeformCode(c, D) == [c EXCEPT !.stabs = [i \in DOMAIN c.stabs |-> ApplyD(D, c.stabs[i])],
                              !.lx = [i \in DOMAIN c.lx |-> ApplyD(D, c.lx[i])],
                              !.lz = [i \in DOMAIN c.lz |-> ApplyD(D, c.lz[i])]]
=============================================================================
