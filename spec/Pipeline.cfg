CONSTANTS
  MaxI = 3
  MaxN = 2
  MaxC = 2
  MaxT = 6
  MinN = 1
  MinC = 1
  MaxSteps = 1000000
INIT Init
NEXT Next
VIEW View
INVARIANT TypeOK
INVARIANT Conservation
INVARIANT NeverTooMany
INVARIANT NoTaskBeyondItsLargestShare
PROPERTY Monotone
