CONSTANT Den = 10
INIT Init
NEXT Next
INVARIANT Judged
POSTCONDITION Post
