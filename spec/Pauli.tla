------------------------------- MODULE Pauli -------------------------------
(***************************************************************************)
(* Pauli operators modulo phase over GF(2), as panqec represents them.    *)
(*                                                                         *)
(* An operator on n qubits (indexed 0..n-1, as in the implementation) is a *)
(* record [x |-> S, z |-> T] with S, T \subseteq 0..n-1: qubit q carries   *)
(*   X iff q \in S \ T,  Z iff q \in T \ S,  Y iff q \in S \cap T.         *)
(* This is the binary symplectic form (BSF) of panqec/bpauli.py with the   *)
(* bit vector written as the set of positions holding 1, so no integer     *)
(* ever encodes a bit vector (TLC integers are 32 bit).                    *)
(*                                                                         *)
(* Everything every other module says about codes, syndromes, logical      *)
(* effects, ranks and distances is defined here, once.                     *)
(***************************************************************************)
EXTENDS Naturals, Integers, FiniteSets, Sequences

Op(xs, zs) == [x |-> xs, z |-> zs]
IdOp == Op({}, {})

SDiff(a, b) == (a \ b) \cup (b \ a)

\* Product of two operators (phases dropped): bitwise XOR of the BSF vectors.
Mul(a, b) == Op(SDiff(a.x, b.x), SDiff(a.z, b.z))

\* Symplectic form: 0 iff a and b commute.
Symp(a, b) == (Cardinality(a.x \cap b.z) + Cardinality(a.z \cap b.x)) % 2
Commute(a, b) == Symp(a, b) = 0

Supp(a) == a.x \cup a.z
Wt(a) == Cardinality(Supp(a))

\* Single-qubit letter of operator a on qubit q.
Letter(a, q) == IF q \in a.x THEN (IF q \in a.z THEN "Y" ELSE "X")
                ELSE (IF q \in a.z THEN "Z" ELSE "I")

\* Operator that carries letter s on qubit q and identity elsewhere.
Single(q, s) == CASE s = "X" -> Op({q}, {})
                  [] s = "Z" -> Op({}, {q})
                  [] s = "Y" -> Op({q}, {q})
                  [] OTHER   -> IdOp

AllOps(n) == [x : SUBSET (0..n-1), z : SUBSET (0..n-1)]

\* Operator -> set of columns of the 2n-bit BSF vector that are 1.
Cols(a, n) == a.x \cup { n + q : q \in a.z }
FromCols(c, n) == Op({ q \in c : q < n }, { q - n : q \in { r \in c : r >= n } })

RangeOf(s) == { s[i] : i \in DOMAIN s }

(***************************************************************************)
(* GF(2) rank of a set of vectors, each given as the set of its 1-columns. *)
(* Duplicates do not change a rank, so a set (not a bag) of rows suffices. *)
(* Gaussian elimination: pick a row, pick a pivot column in it, clear that *)
(* column from every other row, recurse on the others.                     *)
(***************************************************************************)
RECURSIVE RankOfSets(_)
RankOfSets(R) ==
    LET S == R \ {{}} IN
    IF S = {} THEN 0
    ELSE LET r == CHOOSE r \in S : TRUE
             p == CHOOSE p \in r : TRUE
         IN 1 + RankOfSets({ IF p \in s THEN SDiff(s, r) ELSE s : s \in S \ {r} })

RankOps(ops, n) == RankOfSets({ Cols(a, n) : a \in ops })

\* v (a set of columns) lies in the GF(2) span of the rows R.
InSpan(v, R) == RankOfSets(R \cup {v}) = RankOfSets(R)


(***************************************************************************)
(* Echelon basis (a sequence of <<pivot, row>>) for repeated membership    *)
(* tests: row j does not contain the pivots of rows 1..j-1.                *)
(***************************************************************************)
RECURSIVE ReduceBy(_, _, _)
ReduceBy(v, basis, j) ==
    IF j > Len(basis) THEN v
    ELSE ReduceBy(IF basis[j][1] \in v THEN SDiff(v, basis[j][2]) ELSE v, basis, j + 1)

RECURSIVE EchelonAcc(_, _)
EchelonAcc(S, basis) ==
    IF S = {} THEN basis
    ELSE LET r == CHOOSE r \in S : TRUE
             v == ReduceBy(r, basis, 1)
         IN IF v = {} THEN EchelonAcc(S \ {r}, basis)
            ELSE EchelonAcc(S \ {r}, Append(basis, <<CHOOSE p \in v : TRUE, v>>))
Echelon(R) == EchelonAcc(R, <<>>)
InSpanOf(v, basis) == ReduceBy(v, basis, 1) = {}

(***************************************************************************)
(* Stabilizer codes.  A code is a record                                   *)
(*   [n, k, stabs : Seq(Op), lx : Seq(Op), lz : Seq(Op)]                   *)
(* with generator i = stabs[i], logical X_i = lx[i], logical Z_i = lz[i].  *)
(***************************************************************************)
Syndrome(c, e) == { i \in DOMAIN c.stabs : Symp(c.stabs[i], e) = 1 }

InCodespace(c, e) == Syndrome(c, e) = {}

\* panqec's "effective error": bit i (1..k) is set iff e anticommutes with
\* logical Z_i (an X-type action on logical qubit i); bit k+i iff e
\* anticommutes with logical X_i (a Z-type action).
EffectX(c, e) == { i \in DOMAIN c.lz : Symp(c.lz[i], e) = 1 }
EffectZ(c, e) == { i \in DOMAIN c.lx : Symp(c.lx[i], e) = 1 }
Effect(c, e) == [x |-> EffectX(c, e), z |-> EffectZ(c, e)]
NoEffect == [x |-> {}, z |-> {}]

StabRows(c) == { Cols(c.stabs[i], c.n) : i \in DOMAIN c.stabs }

\* Membership in the stabilizer group by linear algebra.
IsStabilizer(c, e) == InSpan(Cols(e, c.n), StabRows(c))

\* The group itself as a least fixed point (for tiny codes; independent of
\* any rank argument, used to cross-check IsStabilizer in the model).
RECURSIVE Closure(_, _)
Closure(G, gens) ==
    LET G2 == G \cup { Mul(g, h) : g \in G, h \in gens } IN
    IF G2 = G THEN G ELSE Closure(G2, gens)
StabGroup(c) == Closure({IdOp}, RangeOf(c.stabs))

(***************************************************************************)
(* C01: the conditions that make (stabs, lx, lz) an [[n,k]] code.  Each    *)
(* clause has a name; FailedValid is the set of names of failing clauses   *)
(* so that a verdict always says which clause broke.                       *)
(***************************************************************************)
StabsCommute(c) ==
    \A i \in DOMAIN c.stabs : \A j \in DOMAIN c.stabs :
        i < j => Commute(c.stabs[i], c.stabs[j])

LogicalsCommuteWithStabs(c) ==
    \A i \in DOMAIN c.stabs :
        /\ \A j \in DOMAIN c.lx : Commute(c.stabs[i], c.lx[j])
        /\ \A j \in DOMAIN c.lz : Commute(c.stabs[i], c.lz[j])

LogicalsPaired(c) ==
    /\ Len(c.lx) = c.k /\ Len(c.lz) = c.k
    /\ \A i \in 1..c.k : \A j \in 1..c.k :
          /\ Symp(c.lx[i], c.lz[j]) = (IF i = j THEN 1 ELSE 0)
          /\ Commute(c.lx[i], c.lx[j])
          /\ Commute(c.lz[i], c.lz[j])

RankIsNminusK(c) == RankOfSets(StabRows(c)) = c.n - c.k

\* Logicals independent of the stabilizer group and of each other.
LogicalsIndependent(c) ==
    RankOfSets(StabRows(c)
               \cup { Cols(c.lx[i], c.n) : i \in DOMAIN c.lx }
               \cup { Cols(c.lz[i], c.n) : i \in DOMAIN c.lz }) = c.n + c.k

InRange(c) ==
    /\ \A i \in DOMAIN c.stabs : Supp(c.stabs[i]) \subseteq 0..(c.n - 1)
    /\ \A i \in DOMAIN c.lx : Supp(c.lx[i]) \subseteq 0..(c.n - 1)
    /\ \A i \in DOMAIN c.lz : Supp(c.lz[i]) \subseteq 0..(c.n - 1)

FailedValid(c) ==
      (IF InRange(c) THEN {} ELSE {"support_in_range"})
 \cup (IF StabsCommute(c) THEN {} ELSE {"stabilizers_commute"})
 \cup (IF LogicalsCommuteWithStabs(c) THEN {} ELSE {"logicals_commute_with_stabilizers"})
 \cup (IF LogicalsPaired(c) THEN {} ELSE {"logical_pairing"})
 \cup (IF RankIsNminusK(c) THEN {} ELSE {"rank_n_minus_k"})
 \cup (IF LogicalsIndependent(c) THEN {} ELSE {"logicals_independent"})

ValidCode(c) == FailedValid(c) = {}

(***************************************************************************)
(* C04: the success predicate.                                             *)
(***************************************************************************)
Success(c, e) == IsStabilizer(c, e)
\* Theorem checked in the models (PauliMC): for a ValidCode,
\*   IsStabilizer(c, e)  <=>  InCodespace(c, e) /\ Effect(c, e) = NoEffect

(***************************************************************************)
(* Single-qubit Clifford relabellings (C08).  A relabelling D assigns to   *)
(* every qubit a permutation of {"X","Y","Z"}; "I" is fixed.               *)
(***************************************************************************)
Letters == {"X", "Y", "Z"}
IdPerm == [s \in Letters |-> s]
Hadamard == [X |-> "Z", Y |-> "Y", Z |-> "X"]          \* X <-> Z
YZSwap  == [X |-> "X", Y |-> "Z", Z |-> "Y"]           \* Y <-> Z
IsPerm(f) == DOMAIN f = Letters /\ { f[s] : s \in Letters } = Letters

\* Image of operator a under relabelling D (function qubit -> permutation).
ApplyD(D, a) ==
    LET img(q) == LET s == Letter(a, q) IN IF s = "I" THEN "I" ELSE D[q][s]
    IN Op({ q \in Supp(a) : img(q) \in {"X", "Y"} },
          { q \in Supp(a) : img(q) \in {"Y", "Z"} })

=============================================================================
