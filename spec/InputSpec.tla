----------------------------- MODULE InputSpec -----------------------------
(***************************************************************************)
(* Input specifications of `panqec run` (simulation/_batch_simulation.py): *)
(* what simulations a specification denotes.  Property C13.                *)
(*                                                                         *)
(* Parameter values are abstract: code parameter set c, noise parameter    *)
(* set n, decoder parameter set d (0 = the decoder entry has no            *)
(* "parameters" key), error rate r, each an index into the list the        *)
(* specification gives.  A block is one "ranges" dictionary:               *)
(*   [nc, nn, nd, nr : how many values each axis lists,                    *)
(*    cform, nform   : whether parameter sets are written as dicts/lists]  *)
(* A specification is                                                      *)
(*   [form |-> "ranges",      blocks |-> <<b>>]                            *)
(*   [form |-> "ranges_list", blocks |-> <<b1, b2, ...>>]                  *)
(*   [form |-> "runs",        blocks |-> <<b>>, runs |-> Seq(tuple)]       *)
(* and denotes a BAG of simulations <<block, c, n, d, r>>.                 *)
(***************************************************************************)
EXTENDS Naturals, Sequences, FiniteSets

DecIdx(b) == IF b.nd = 0 THEN {0} ELSE 1..b.nd

\* the Cartesian product a "ranges" block asks for
Expand(j, b) == { <<j, c, n, d, r>> : c \in 1..b.nc, n \in 1..b.nn, d \in DecIdx(b), r \in 1..b.nr }

\* number of times x must occur among the simulations of specification s
Expected(s, x) ==
    IF s.form = "runs"
    THEN Cardinality({ i \in DOMAIN s.runs : s.runs[i] = x })
    ELSE IF x[1] \in DOMAIN s.blocks /\ x \in Expand(x[1], s.blocks[x[1]]) THEN 1 ELSE 0

ExpectedTotal(s) ==
    IF s.form = "runs" THEN Len(s.runs)
    ELSE LET RECURSIVE Sum(_)
             Sum(j) == IF j = 0 THEN 0 ELSE Cardinality(Expand(j, s.blocks[j])) + Sum(j - 1)
         IN Sum(Len(s.blocks))

Count(seq, x) == Cardinality({ i \in DOMAIN seq : seq[i] = x })

\* observed (a sequence of tuples) is exactly the bag the specification denotes
ExactlyRequested(s, observed) ==
    /\ Len(observed) = ExpectedTotal(s)
    /\ \A i \in DOMAIN observed : Count(observed, observed[i]) = Expected(s, observed[i])
=============================================================================
