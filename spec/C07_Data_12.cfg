CONSTANT Den = 12
INIT Init
NEXT Next
INVARIANT Judged
POSTCONDITION Post
