CONSTANTS
  Props = {"stabilizer_matrix", "Hx", "logicals_x"}
  Deformations = {"D1", "D2"}
  ClearedOnDeform = {"stabilizer_matrix", "Hx", "logicals_x"}
  Compose = TRUE
  MaxDeforms = 2
  Depth = 1000
INIT Init
NEXT Next
VIEW view
INVARIANT LastDeformWins
