----------------------------- MODULE C08_Data -----------------------------
(***************************************************************************)
(* C08, code -> spec: one record per (class, size, deformation, axis) with *)
(* the undeformed export `und`, the deformed export `def`, the per-qubit   *)
(* get_deformation table D (letters images of X, Y, Z), the qubit axes,    *)
(* the resolved deformation axis and the per-qubit relabelling `noise`     *)
(* observed in the deformed noise model's probability tables.              *)
(***************************************************************************)
EXTENDS DataDriven, Pauli

VARIABLE i
Init == i = 0
Next == i < NRecs /\ i' = i + 1

PermOf(t) == [X |-> t[1], Y |-> t[2], Z |-> t[3]]

Failed(r) ==
  LET n == r.n
      U == AsCode(r.und)
      V == AsCode(r.def)
      D == [q \in 0..(n-1) |-> PermOf(r.D[q+1])]
      ND == [q \in 0..(n-1) |-> PermOf(r.noise[q+1])]
      ND2 == [q \in 0..(n-1) |-> PermOf(r.noise_on_deformed[q+1])]
      Img(s) == [j \in DOMAIN s |-> ApplyD(D, s[j])]
      basis == { Single(q, s) : q \in AsSet(r.probe), s \in Letters }
  IN (IF \A q \in 0..(n-1) : IsPerm(D[q]) THEN {} ELSE {"relabelling_is_permutation"})
\cup (IF r.name = "XZZX" =>
           \A q \in 0..(n-1) : D[q] = (IF r.axes[q+1] = r.axis THEN Hadamard ELSE IdPerm)
      THEN {} ELSE {"XZZX_is_hadamard_exactly_on_axis_qubits"})
\cup (IF r.name = "XY" => \A q \in 0..(n-1) : D[q] = YZSwap
      THEN {} ELSE {"XY_is_Y_Z_swap_everywhere"})
\cup (IF r.D = r.D_again THEN {} ELSE {"relabelling_fixed"})
\cup (IF V.stabs = Img(U.stabs) THEN {} ELSE {"stabilizers_are_images"})
\cup (IF V.lx = Img(U.lx) /\ V.lz = Img(U.lz) THEN {} ELSE {"logicals_are_images"})
\cup (IF V.n = U.n /\ V.k = U.k /\ r.def.d = r.und.d THEN {} ELSE {"n_k_d_preserved"})
\cup (IF \A a \in DOMAIN U.stabs : \A b \in DOMAIN U.stabs :
            a < b => Symp(V.stabs[a], V.stabs[b]) = Symp(U.stabs[a], U.stabs[b])
      THEN {} ELSE {"commutation_preserved"})
\cup (IF r.small => RankOfSets(StabRows(V)) = RankOfSets(StabRows(U)) THEN {} ELSE {"rank_preserved"})
\cup (IF \A e \in basis :
            /\ Syndrome(V, ApplyD(D, e)) = Syndrome(U, e)
            /\ Effect(V, ApplyD(D, e)) = Effect(U, e)
      THEN {} ELSE {"deformed_code_sees_D_e_as_original_sees_e"})
\cup (IF ND = D /\ ND2 = D THEN {} ELSE {"noise_relabelled_by_same_D"})
\cup (IF r.noise_default = r.noise_default_on_deformed THEN {}
      ELSE {"noise_model_does_not_depend_on_earlier_deformations_of_the_object"})
\cup (IF r.noise_default = r.noise_default_after_params_edit THEN {}
      ELSE {"noise_model_does_not_depend_on_options_given_to_another_model"})
\cup (IF \A j \in DOMAIN r.ep_ok : r.ep_ok[j] THEN {} ELSE {"deformed_noise_gives_e_the_probability_of_D_e"})
\cup (IF r.deformed_flag /\ r.deformed_name = r.name THEN {} ELSE {"deformation_recorded_on_object"})

Judged == i = 0 \/ Report(Recs[i].id, Failed(Recs[i]))
Post == PrintT(<<"CHECKED", TLCGet("distinct") - 1>>)
=============================================================================
