----------------------------- MODULE C17_Brute -----------------------------
(* C17 on tiny codes by unpruned enumeration of all 4^n operators; this is *)
(* both a direct check and the oracle that validates the pruning lemma of  *)
(* DistanceSearch.tla.                                                     *)
EXTENDS DataDriven, Pauli

VARIABLE i
Init == i = 0
Next == i < NRecs /\ i' = i + 1

Logicals(cd) == { e \in AllOps(cd.n) : InCodespace(cd, e) /\ Effect(cd, e) # NoEffect }
BruteDistance(cd) == LET W == { Wt(e) : e \in Logicals(cd) } IN
                     CHOOSE m \in W : \A t \in W : m <= t

Failed(r) == IF r.k = 0 THEN {}
             ELSE IF BruteDistance(AsCode(r)) = r.d THEN {} ELSE {"brute_force_distance_differs"}

Judged == i = 0 \/ Report(Recs[i].id, Failed(Recs[i]))
Post == PrintT(<<"CHECKED", TLCGet("distinct") - 1>>)
=============================================================================
