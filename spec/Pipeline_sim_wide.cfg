CONSTANTS
  MaxI = 2
  MaxN = 3
  MaxC = 6
  MaxT = 16
  MinN = 2
  MinC = 4
  MaxSteps = 4
INIT Init
NEXT Next
INVARIANT TypeOK
INVARIANT Conservation
INVARIANT NeverTooMany
INVARIANT NoTaskBeyondItsLargestShare
CONSTRAINT Emit
CONSTRAINT AtMostOneExtend
