-------------------------- MODULE Threshold_Model --------------------------
(* Design-level check of Threshold.tla and emission of the C16 domain:     *)
(* every planted case of the box with nu = 1 is well conditioned and its   *)
(* counts are monotone in p for every distance; the curves of different    *)
(* distances cross exactly at p_th (below p_th the larger code is better,  *)
(* above it is worse); Status = "success" iff Plausible on the whole grid  *)
(* of entries.  The cases, layouts and entries are written to VERIF_OUT.   *)
EXTENDS Threshold, Json, IOUtils, FiniteSetsExt, SequencesExt

CONSTANT Big

Cases == Box(Big)
ASSUME JsonSerialize(IOEnv.VERIF_OUT,
         << SetToSeq({ [case |-> c,
                        counts |-> IF c.nu = 100
                                   THEN [j \in DOMAIN c.ds |-> [m \in DOMAIN c.offs |-> Counts(c, c.offs[m], c.ds[j])]]
                                   ELSE <<>>] : c \in Cases }),
            SetToSeq(Layouts),
            SetToSeq({ [entry |-> e, status |-> Status(e)] : e \in Entries }) >>)

VARIABLES c, e
Init == c \in Cases /\ e \in {[params_nan |-> FALSE, th |-> 100000, left |-> 90000, right |-> 110000,
                               se |-> 10000, A |-> 200000, bc_zero |-> FALSE, pl |-> 80000, pr |-> 150000]}
Next == UNCHANGED <<c, e>>

Conditioned == \A pt \in Points(c) : c.nu = 100 => (Counts(c, pt[2], pt[1]) > 200 /\ Counts(c, pt[2], pt[1]) < 9000)
Monotone == c.nu = 100 =>
    \A j \in DOMAIN c.ds : \A m \in 1..(Len(c.offs) - 1) :
        Counts(c, c.offs[m], c.ds[j]) < Counts(c, c.offs[m + 1], c.ds[j])
CrossAtThreshold == c.nu = 100 =>
    \A j \in 1..(Len(c.ds) - 1) : \A m \in DOMAIN c.offs :
        LET small == Counts(c, c.offs[m], c.ds[j])  large == Counts(c, c.offs[m], c.ds[j + 1]) IN
        /\ (c.offs[m] < 0 => large < small)
        /\ (c.offs[m] = 0 => large = small)
        /\ (c.offs[m] > 0 => large > small)
SuccessIffPlausible == \A x \in Entries : (Status(x) = "success") <=> Plausible(x)
Post == PrintT(<<"CHECKED", TLCGet("distinct")>>)
=============================================================================
