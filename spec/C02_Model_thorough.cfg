CONSTANTS NQ = 4
          NS = 2
INIT Init
NEXT Next
INVARIANT DictBsfBijection
INVARIANT Sectors
INVARIANT Blocks
POSTCONDITION Post
