-------------------------- MODULE InputSpec_Model --------------------------
(* Enumerates the specification shapes (the domain of C13) and writes them *)
(* to VERIF_OUT for the harness to materialise; checks design-level sanity *)
(* of Expand on each (cardinality = product of the axis lengths, all       *)
(* tuples distinct, blocks of a list disjoint).                            *)
EXTENDS InputSpec, TLC, Json, IOUtils, FiniteSetsExt, SequencesExt

CONSTANTS K, KL

Forms == {"dict", "list"}
Blocks(k, forms) == [nc : 1..k, nn : 1..k, nd : 0..k, nr : 1..k, cform : forms, nform : forms]

RangesSpecs == { [form |-> "ranges", blocks |-> <<b>>, runs |-> <<>>] : b \in Blocks(K, Forms) }
ListSpecs == { [form |-> "ranges_list", blocks |-> <<b1, b2>>, runs |-> <<>>] :
                  b1 \in Blocks(KL, {"dict"}), b2 \in Blocks(KL, {"list"}) }
RunTuples == { <<1, c, n, d, r>> : c \in 1..2, n \in 1..2, d \in 0..1, r \in 1..2 }
RunsSpecs == { [form |-> "runs", blocks |-> <<[nc |-> 2, nn |-> 2, nd |-> 1, nr |-> 2, cform |-> f, nform |-> f]>>,
                runs |-> rs] : f \in Forms, rs \in (UNION { [1..m -> RunTuples] : m \in 1..2 }) }

Specs == RangesSpecs \cup ListSpecs \cup RunsSpecs

ASSUME JsonSerialize(IOEnv.VERIF_OUT, SetToSeq(Specs))

VARIABLE s
Init == s \in Specs
Next == UNCHANGED s

ProductSize ==
    s.form # "runs" => \A j \in DOMAIN s.blocks :
        LET b == s.blocks[j] IN
        Cardinality(Expand(j, b)) = b.nc * b.nn * (IF b.nd = 0 THEN 1 ELSE b.nd) * b.nr
BlocksDisjoint ==
    \A i \in DOMAIN s.blocks : \A j \in DOMAIN s.blocks :
        i # j => Expand(i, s.blocks[i]) \cap Expand(j, s.blocks[j]) = {}
\* the denotation is self-consistent: enumerating it gives an exactly-requested list
SelfConsistent ==
    LET all == IF s.form = "runs" THEN s.runs
               ELSE SetToSeq(UNION { Expand(j, s.blocks[j]) : j \in DOMAIN s.blocks })
    IN ExactlyRequested(s, all)
Post == PrintT(<<"CHECKED", TLCGet("distinct")>>)
=============================================================================
