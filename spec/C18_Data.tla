----------------------------- MODULE C18_Data -----------------------------
(***************************************************************************)
(* C18, code -> spec: error_probability against Noise!PNum.                *)
(* kind "all": a code with n <= 9 and a channel on the decimal grid        *)
(*   (numerators chanI..chanZ over Den = 10, relabelled per qubit by D):   *)
(*   lin[t], logx[t] = round(P * 10^n) for ALL 4^n errors t (base-4        *)
(*   numeral, digit q: 0=I 1=X 2=Y 3=Z), from the linear and the log       *)
(*   output (-1 if further than 1e-9 * scale from an integer).             *)
(* kind "dyadic": any n, channel (1/2, 1/4, 1/8, 1/8) up to relabelling:   *)
(*   -log2 P(e) is the integer sum of per-qubit exponents; obs[j].bits is  *)
(*   what the implementation's log output gives (-1 if not integral).      *)
(***************************************************************************)
EXTENDS DataDriven, Noise
S == INSTANCE Splitting

VARIABLE i
Init == i = 0
Next == i < NRecs /\ i' = i + 1

PermOf(t) == [X |-> t[1], Y |-> t[2], Z |-> t[3]]
Digit(t, q) == (t \div Pow(4, q)) % 4
LetterOf(d) == Paulis[d + 1]

RECURSIVE SumSeq(_, _)
SumSeq(s, j) == IF j = 0 THEN 0 ELSE s[j] + SumSeq(s, j - 1)

FailedAll(r) ==
  LET n == r.n
      base == [I |-> r.chan[1], X |-> r.chan[2], Y |-> r.chan[3], Z |-> r.chan[4]]
      ch == [q \in 1..n |-> Deformed(base, PermOf(r.D[q]))]
      N == Pow(4, n)
      Letters(t) == [q \in 1..n |-> LetterOf(Digit(t, q - 1))]
  IN (IF Len(r.lin) = N THEN {} ELSE {"all_errors_covered"})
\cup (IF \A t \in 0..(N-1) : r.lin[t+1] = PNum(Letters(t), ch) THEN {} ELSE {"probability_is_product_over_qubits"})
\cup (IF \A t \in 0..(N-1) : r.logx[t+1] = PNum(Letters(t), ch) THEN {} ELSE {"log_output_is_log_of_product"})
\cup (IF SumSeq(r.lin, N) = Pow(10, n) THEN {} ELSE {"probabilities_sum_to_one"})

ExpOf(s, perm) == LET t == IF s = "I" THEN "I" ELSE perm[s] IN
                  CASE t = "I" -> 1 [] t = "X" -> 2 [] t = "Y" -> 3 [] t = "Z" -> 3
\* r.rperm says which Pauli carries r = 1/2 etc.: the direction is a
\* permutation of (1/2, 1/4, 1/4) given as exponents of X, Y, Z
FailedDyadic(r) ==
  LET n == r.n
      ex(q, s) == IF s = "I" THEN 1
                  ELSE LET t == PermOf(r.D[q])[s] IN
                       CASE t = "X" -> r.exps[1] [] t = "Y" -> r.exps[2] [] t = "Z" -> r.exps[3]
      RECURSIVE Tot(_, _)
      Tot(letters, q) == IF q = 0 THEN 0 ELSE ex(q, letters[q]) + Tot(letters, q - 1)
  IN (IF \A j \in DOMAIN r.obs : r.obs[j].bits = Tot(r.obs[j].letters, n)
      THEN {} ELSE {"probability_is_product_over_qubits"})
\cup (IF \A j \in DOMAIN r.obs : r.obs[j].lin_ok THEN {} ELSE {"linear_output_is_exp_of_log_output"})

\* kind "metropolis": steps of SplittingSimulation.get_next_error driven with
\* a scripted np.random; obs[j] = [cur, q, offered, s, accbits, coin, fails,
\* next, repbits] (letters as sequences, q 0-based, accbits = -log2 of the
\* bias handed to the coin, S!Inf if that bias is 0)
FailedMetropolis(r) ==
  LET n == r.n
      Ex == [q \in 1..n |-> [s \in {"I", "X", "Y", "Z"} |->
               IF s = "I" THEN 1
               ELSE LET t == PermOf(r.D[q])[s] IN
                    CASE t = "X" -> r.exps[1] [] t = "Y" -> r.exps[2] [] t = "Z" -> r.exps[3]]]
      New(o) == S!Propose(o.cur, o.q + 1, o.s)
  IN (IF \A j \in DOMAIN r.obs : AsSet(r.obs[j].offered) = S!Allowed(Ex, r.obs[j].q + 1)
      THEN {} ELSE {"proposed_paulis_are_those_the_channel_allows"})
\cup (IF \A j \in DOMAIN r.obs :
           LET o == r.obs[j] IN
           IF S!Possible(Ex, New(o)) /\ S!Possible(Ex, o.cur)
           THEN o.accbits = S!AcceptBits(Ex, o.cur, New(o))
           ELSE (S!Possible(Ex, o.cur) => o.accbits = S!Inf)
      THEN {} ELSE {"acceptance_probability_is_the_likelihood_ratio"})
\cup (IF \A j \in DOMAIN r.obs :
           LET o == r.obs[j] IN o.next = S!Keep(o.cur, New(o), o.coin, o.fails)
      THEN {} ELSE {"accepted_proposal_kept_iff_it_still_fails_and_nothing_else_changes"})
\cup (IF \A j \in DOMAIN r.obs :
           LET o == r.obs[j] IN S!Possible(Ex, o.next) => o.repbits = S!Bits(Ex, o.next)
      THEN {} ELSE {"reported_likelihood_is_that_of_the_error_kept"})

Failed(r) == CASE r.kind = "all" -> FailedAll(r)
               [] r.kind = "metropolis" -> FailedMetropolis(r)
               [] OTHER -> FailedDyadic(r)

Judged == i = 0 \/ Report(Recs[i].id, Failed(Recs[i]))
Post == PrintT(<<"CHECKED", TLCGet("distinct") - 1>>)
=============================================================================
