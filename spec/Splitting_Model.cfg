CONSTANTS
  N = 2
  Exps = {2, 3, 100000}
INIT Init
NEXT Next
INVARIANT StaysPossible
INVARIANT SymmetricProposal
INVARIANT DetailedBalance
INVARIANT AcceptanceIsAProbability
