CONSTANTS Max2 = 5
          Max3 = 3
INIT Init
NEXT Next
INVARIANT Valid
INVARIANT IndexMaps
INVARIANT LogicalWeights
