------------------------------ MODULE Analysis ------------------------------
(***************************************************************************)
(* What `panqec.analysis.Analysis` must report for a multiset of trials,   *)
(* however the trials are split over result files (C15).                   *)
(*                                                                         *)
(* A trial is [key, ee, cs, ok]: the simulation it belongs to (code,       *)
(* noise, decoder, error rate), its 2k-bit effective error (sequence of    *)
(* 0/1), whether the final state was in the code space, and success.       *)
(* A layout distributes trial numbers over containers (files); each        *)
(* container holds records, each record holds trials of ONE key.           *)
(***************************************************************************)
EXTENDS Naturals, Sequences, FiniteSets

\* trials of key `key` anywhere in the layout (a set of trial numbers: the
\* layout is a partition, so no trial occurs twice)
TrialsOf(layout, T, key) ==
    { t \in UNION { UNION { { rec[j] : j \in DOMAIN rec } : rec \in { c.recs[i] : i \in DOMAIN c.recs } }
                    : c \in { layout[i] : i \in DOMAIN layout } } : T[t].key = key }

IsPartition(layout, T) ==
    LET blocks == UNION { { c.recs[i] : i \in DOMAIN c.recs } : c \in { layout[i] : i \in DOMAIN layout } }
        occ(t) == Cardinality({ <<b, j>> \in UNION { { <<b, j>> : j \in DOMAIN b } : b \in blocks } : b[j] = t })
    IN \A t \in DOMAIN T : occ(t) = 1

\* number of flagged bits among positions off+1..off+k, summed over the
\* in-codespace trials of S
RECURSIVE FlaggedBits(_, _, _, _)
FlaggedBits(S, T, k, off) ==
    IF S = {} THEN 0
    ELSE LET t == CHOOSE t \in S : TRUE IN
         (IF T[t].cs THEN Cardinality({ i \in 1..k : T[t].ee[off + i] = 1 }) ELSE 0)
         + FlaggedBits(S \ {t}, T, k, off)

\* the pooled statistics of one key, as integers (estimators are ratios)
NTrials(S) == Cardinality(S)
NFail(S, T) == Cardinality({ t \in S : ~T[t].ok })
\* sector counts: among in-codespace trials, number of flagged logical bits
NTrialsSector(S, T, k) == k * Cardinality({ t \in S : T[t].cs })
NFailX(S, T, k) == FlaggedBits(S, T, k, 0)
NFailZ(S, T, k) == FlaggedBits(S, T, k, k)
\* single-logical-qubit patterns on qubit i: "any" / X = (1,0) / Y = (1,1) / Z = (0,1)
Pattern(T, t, k, i) == <<T[t].ee[i], T[t].ee[k + i]>>
NSingle(S, T, k, i, s) ==
    Cardinality({ t \in S : CASE s = "any" -> Pattern(T, t, k, i) # <<0, 0>>
                              [] s = "X" -> Pattern(T, t, k, i) = <<1, 0>>
                              [] s = "Y" -> Pattern(T, t, k, i) = <<1, 1>>
                              [] s = "Z" -> Pattern(T, t, k, i) = <<0, 1>> })
=============================================================================
