----------------------------- MODULE C14_Data -----------------------------
(* C14, spec -> code: the real run-parallel command was driven for a       *)
(* configuration (I, N, C, T) and every job index; the recorded tasks      *)
(* {input, nruns, file} are judged against the property, and compared with *)
(* Parallel!Assign (note only).                                            *)
EXTENDS DataDriven, FiniteSets

VARIABLE i
Init == i = 0
Next == i < NRecs /\ i' = i + 1

RECURSIVE SumOver(_, _, _)
SumOver(tasks, inp, j) == IF j = 0 THEN 0
    ELSE (IF tasks[j].input = inp THEN tasks[j].nruns ELSE 0) + SumOver(tasks, inp, j - 1)

Failed(r) ==
     (IF r.raised = "" THEN {} ELSE {"raised"})
\cup (IF r.raised # "" \/ Len(r.tasks) = r.N * r.C THEN {} ELSE {"one_task_per_core"})
\cup (IF r.raised # "" \/ \A inp \in 0..(r.I - 1) : SumOver(r.tasks, inp, Len(r.tasks)) = r.T
      THEN {} ELSE {"trials_per_input_sum_to_requested"})
\cup (IF \A j \in DOMAIN r.tasks : r.tasks[j].nruns >= 1 THEN {} ELSE {"every_task_at_least_one_trial"})
\cup (IF \A a \in DOMAIN r.tasks : \A b \in DOMAIN r.tasks : a # b => r.tasks[a].file # r.tasks[b].file
      THEN {} ELSE {"result_files_distinct"})

Judged == i = 0 \/ Report(Recs[i].id, Failed(Recs[i]))
Post == PrintT(<<"CHECKED", TLCGet("distinct") - 1>>)
=============================================================================
