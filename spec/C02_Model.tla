---------------------------- MODULE C02_Model ----------------------------
(***************************************************************************)
(* C02, design level + generator for the spec -> code direction.           *)
(* State = one small lattice definition (nq qubits, 1..NS stabilizers with *)
(* arbitrary non-empty X/Y/Z supports).  TLC checks on every definition    *)
(* the theorems that make the derived views well defined, and writes the   *)
(* whole set of definitions to VERIF_OUT; the harness builds a user-defined*)
(* StabilizerCode subclass from each and validates its export with         *)
(* C02_Data (same predicates as for the library codes).                    *)
(***************************************************************************)
EXTENDS CodeObject, TLC, Json, IOUtils, FiniteSetsExt, SequencesExt

CONSTANTS NQ, NS

SiteSets(nq) ==    \* all non-empty coordinate-dict operators on nq qubits
    { SitesOf(a) : a \in (AllOps(nq) \ {IdOp}) }

Defs == UNION { UNION { { [nq |-> nq, stabs |-> s] : s \in [1..ns -> SiteSets(nq)] }
                        : ns \in 1..NS } : nq \in 1..NQ }

ASSUME JsonSerialize(IOEnv.VERIF_OUT, SetToSeq(Defs))

VARIABLE def
Init == def \in Defs
Next == UNCHANGED def

H == DerivedH(def.stabs)

\* dict <-> BSF is a bijection between functional site sets and operators
DictBsfBijection ==
    /\ \A S \in SiteSets(def.nq) : Functional(S) /\ SitesOf(ImageOfSites(S)) = S
    /\ \A a \in AllOps(def.nq) : ImageOfSites(SitesOf(a)) = a
    /\ \A j \in DOMAIN H : SitesOf(H[j]) = def.stabs[j]

\* for CSS definitions the masks partition the rows and sectors decouple
Sectors ==
    IsCSS(H) =>
      /\ XMask(H) \cup ZMask(H) = DOMAIN H
      /\ \A e \in AllOps(def.nq) :
            /\ SyndromeH(H, e) \cap XMask(H) = SyndromeH(H, Op({}, e.z)) \cap XMask(H)
            /\ SyndromeH(H, e) \cap ZMask(H) = SyndromeH(H, Op(e.x, {})) \cap ZMask(H)

\* blocks have the right shape
Blocks == Len(HxOf(H)) = Cardinality(XMask(H)) /\ Len(HzOf(H)) = Cardinality(ZMask(H))

Post == PrintT(<<"CHECKED", TLCGet("distinct")>>)
=============================================================================
