----------------------------- MODULE C13_Data -----------------------------
(* C13, spec -> code: each record is one specification shape from          *)
(* InputSpec_Model, materialised as a real input dictionary and read by    *)
(* read_input_dict / expand_input_ranges; `observed` are the simulations   *)
(* built, projected back to abstract <<block, c, n, d, r>> tuples (0 where *)
(* the built object does not carry a requested value).                     *)
(* kind "registry": a registered name and the class it resolved to.        *)
(* kind "rebuild" : projection of a simulation and of the one rebuilt from *)
(*                  its recorded inputs after a JSON round trip.           *)
EXTENDS DataDriven, InputSpec

VARIABLE i
Init == i = 0
Next == i < NRecs /\ i' = i + 1

AsSpec(r) == [form |-> r.spec.form, blocks |-> r.spec.blocks,
              runs |-> [j \in DOMAIN r.spec.runs |-> r.spec.runs[j]]]

FailedSpec(r) ==
     (IF r.raised = "" THEN {} ELSE {"reading_the_specification_raised"})
\cup (IF r.raised # "" \/ ExactlyRequested(AsSpec(r), r.observed) THEN {} ELSE {"simulations_are_exactly_the_product"})
\cup (IF r.raised # "" \/ r.spec.form # "ranges" \/ ExactlyRequested(AsSpec(r), r.expanded)
      THEN {} ELSE {"expand_input_ranges_is_exactly_the_product"})
\cup (IF r.raised # "" \/ \A j \in DOMAIN r.wired : r.wired[j] THEN {} ELSE {"decoder_built_for_its_own_code_noise_rate"})

(* kind "decoder_params": one decoder built by read_input_dict from a spec   *)
(* that sets constructor parameters: `requested` / `echoed` (decoder.params) *)
(* are sequences of <<name, value text>>; `components` lists, for the       *)
(* decoder and every decoder object it is made of, each attribute that     *)
(* carries a requested parameter's name: <<owner, name, value text>>.       *)
FailedDecoderParams(r) ==
     (IF r.raised = "" THEN {} ELSE {"reading_the_specification_raised"})
\cup (IF r.raised # "" \/ \A q \in AsSet(r.requested) : q \in AsSet(r.echoed)
      THEN {} ELSE {"decoder_reports_the_requested_parameters"})
\cup (IF r.raised # "" \/ \A c \in AsSet(r.components) : <<c[2], c[3]>> \in AsSet(r.requested)
      THEN {} ELSE {"every_component_built_with_the_requested_parameters"})

Failed(r) == CASE r.kind = "spec" -> FailedSpec(r)
               [] r.kind = "decoder_params" -> FailedDecoderParams(r)
               [] r.kind = "sides" ->
                    (IF r.raised = "" THEN {} ELSE {"reading_the_specification_raised"})
                    \cup (IF r.raised # "" \/ (r.built = r.expected /\ r.recorded = r.expected) THEN {}
                          ELSE {"sides_left_out_default_to_the_first_one"})
               [] r.kind = "registry" -> IF r.name = r.resolved THEN {} ELSE {"registered_name_resolves_to_class_of_that_name"}
               [] r.kind = "rebuild" -> IF r.original = r.rebuilt THEN {} ELSE {"rebuilt_from_recorded_inputs_is_identical"}

Judged == i = 0 \/ Report(Recs[i].id, Failed(Recs[i]))
Post == PrintT(<<"CHECKED", TLCGet("distinct") - 1>>)
=============================================================================
