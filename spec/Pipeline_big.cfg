CONSTANTS
  MaxI = 4
  MaxN = 3
  MaxC = 3
  MaxT = 8
  MinN = 1
  MinC = 1
  MaxSteps = 1000000
INIT Init
NEXT Next
VIEW View
INVARIANT TypeOK
INVARIANT Conservation
INVARIANT NeverTooMany
PROPERTY Monotone
