CONSTANTS
  MaxI = 3
  MaxN = 3
  MaxC = 2
  MaxT = 7
  MinN = 1
  MinC = 1
  MaxSteps = 1000000
INIT Init
NEXT Next
VIEW View
INVARIANT TypeOK
INVARIANT Conservation
INVARIANT NeverTooMany
INVARIANT NoTaskBeyondItsLargestShare
PROPERTY Monotone
