------------------------------ MODULE C16_Data ------------------------------
(***************************************************************************)
(* C16, judgement of what the real threshold estimator reported.           *)
(* Record kinds:                                                           *)
(*  "planted": [case, counts (trials failed per distance x rate, as        *)
(*              written to the result files), runs: one per layout with    *)
(*              the row of Analysis.thresholds in 1e-6 units]              *)
(*  "status" : [entry, observed] - get_fit_status on one grid entry        *)
(* Clauses are C16's statement; tolerances: the reported threshold may     *)
(* differ from the planted one by 5 half-widths of its reported confidence  *)
(* interval or 1% of p_th (whichever is larger); results under different layouts may differ  *)
(* by 2e-6 (rounding of the 1e-6 projection).                              *)
(***************************************************************************)
EXTENDS DataDriven, Threshold

VARIABLE i
Init == i = 0
Next == i < NRecs /\ i' = i + 1

MinOf(S) == CHOOSE m \in S : \A y \in S : m <= y
MaxV(a, b) == IF a > b THEN a ELSE b

Planted(c) == c.pth * 100                       \* 1e-6
RateOf(c, off) == (c.pth * (1000 + off)) \div 10  \* 1e-6
OffSet(c) == { c.offs[j] : j \in DOMAIN c.offs }
PMin(c) == RateOf(c, MinOf(OffSet(c)))
PMax(c) == RateOf(c, MaxOf(OffSet(c)))
\* the manual window drops the outermost rate on each side
WMin(c, mode) == IF mode = "override" THEN RateOf(c, MinOf(OffSet(c) \ {MinOf(OffSet(c))})) ELSE PMin(c)
WMax(c, mode) == IF mode = "override" THEN RateOf(c, MaxOf(OffSet(c) \ {MaxOf(OffSet(c))})) ELSE PMax(c)

\* planted threshold, 1% of it, data range and window - all in 1e-6
RunClausesG(planted, onepct, pmin, pmax, wmin, wmax, r) ==
  IF r.raised # "" THEN {"estimation_raised"} ELSE
     (IF Abs(r.th - planted) <= MaxV(5 * ((r.right - r.left) \div 2), onepct) THEN {}
      ELSE {"threshold_differs_from_the_planted_one_beyond_fit_tolerance"})
\cup (IF r.left <= r.th /\ r.th <= r.right THEN {} ELSE {"threshold_outside_its_own_confidence_interval"})
\cup (IF wmin <= r.th /\ r.th <= wmax THEN {} ELSE {"threshold_outside_the_data_range"})
\cup (IF r.status = "success" /\ r.found THEN {} ELSE {"fit_not_flagged_successful"})
\cup (IF r.se > 0 /\ r.left < r.right THEN {} ELSE {"degenerate_uncertainty"})
\cup (IF r.mode = "auto"
      THEN (IF pmin - 2 <= r.pl /\ r.pl <= r.th /\ r.th <= r.pr /\ r.pr <= pmax + 2 THEN {}
            ELSE {"automatic_window_outside_the_data_or_excluding_the_threshold"})
      ELSE (IF Abs(r.pl - wmin) <= 2 /\ Abs(r.pr - wmax) <= 2 THEN {}
            ELSE {"data_range_used_is_not_the_range_supplied"}))
RunClauses(c, r) == RunClausesG(Planted(c), c.pth, PMin(c), PMax(c), WMin(c, r.mode), WMax(c, r.mode), r)

\* kind "sector": X and Z logical failures planted with different thresholds;
\* each sector's reported threshold is judged against its own planted value
FailedSector(r) == UNION { RunClausesG(r.planted, r.onepct, r.pmin, r.pmax, r.pmin, r.pmax, r.runs[k]) :
                           k \in DOMAIN r.runs }
   \* the threshold plot of the sector draws the estimate the table reports
   \* (a plot that marks no threshold at all - another way of drawing - is not judged)
   \cup (IF \A k \in DOMAIN r.runs : r.runs[k].raised # "" \/
              \A j \in DOMAIN r.runs[k].drawn : r.runs[k].drawn[j] = r.runs[k].th
         THEN {} ELSE {"threshold_drawn_in_the_plot_is_not_the_one_reported"})

FailedPlanted(r) ==
  LET c == r.case IN
     (IF c.nu = 100 =>
           \A j \in DOMAIN c.ds : \A m \in DOMAIN c.offs :
              Abs(r.counts[j][m] - Counts(c, c.offs[m], c.ds[j])) <= 4
      THEN {} ELSE {"MACHINERY_planted_data_not_on_the_ansatz"})
\cup UNION { RunClauses(c, r.runs[k]) : k \in DOMAIN r.runs }
\cup (IF \A k \in DOMAIN r.runs :
           (r.runs[k].raised = "" /\ r.runs[1].raised = "" /\ r.runs[k].mode = "all" /\ r.runs[1].mode = "all") =>
              /\ Abs(r.runs[k].th - r.runs[1].th) <= 2
              /\ Abs(r.runs[k].left - r.runs[1].left) <= 2
              /\ Abs(r.runs[k].right - r.runs[1].right) <= 2
      THEN {} ELSE {"result_depends_on_the_order_of_rows_or_files"})

FailedStatus(r) ==
  IF (r.observed = "success") <=> Plausible(r.entry) THEN {} ELSE {"success_flag_differs_from_plausibility_of_the_fit"}
NoteStatus(r) ==
  IF r.observed = Status(r.entry) THEN {} ELSE {"status_text_differs_from_the_transcription"}

Failed(r) == IF r.kind = "planted" THEN FailedPlanted(r)
             ELSE IF r.kind = "sector" THEN FailedSector(r) ELSE FailedStatus(r)
Judged == i = 0 \/
          /\ Report(Recs[i].id, Failed(Recs[i]))
          /\ (Recs[i].kind # "status" \/ NoteStatus(Recs[i]) = {}
              \/ PrintT(<<"NOTE", Recs[i].id, NoteStatus(Recs[i])>>))
Post == PrintT(<<"CHECKED", TLCGet("distinct") - 1>>)
=============================================================================
