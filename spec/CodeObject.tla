---------------------------- MODULE CodeObject ----------------------------
(***************************************************************************)
(* The StabilizerCode object: how every derived view (parity-check matrix, *)
(* X/Z row masks, Hx/Hz, dict<->BSF conversion, syndrome sectors) follows  *)
(* from the primitive lattice definition (C02), and the object's           *)
(* life-cycle under deform() and lazy caching (C08, CodeLifecycle.tla).    *)
(*                                                                         *)
(* A lattice definition is what a subclass provides:                       *)
(*   qcoords : Seq(coordinate)   get_qubit_coordinates()                   *)
(*   scoords : Seq(coordinate)   get_stabilizer_coordinates()              *)
(*   sites   : Seq(SUBSET (Qubit \X Letter))  get_stabilizer(scoords[i]),  *)
(*             qubit given by its index in qcoords (0-based)               *)
(***************************************************************************)
EXTENDS Pauli

\* A coordinate-dict operator is a *functional* set of <<qubit, letter>> pairs.
Functional(S) == \A s \in S : \A t \in S : s[1] = t[1] => s[2] = t[2]

\* dict -> BSF  (to_bsf)
ImageOfSites(S) == Op({ s[1] : s \in { t \in S : t[2] \in {"X", "Y"} } },
                      { s[1] : s \in { t \in S : t[2] \in {"Y", "Z"} } })
\* BSF -> dict  (from_bsf)
SitesOf(a) == { <<q, Letter(a, q)>> : q \in Supp(a) }

DerivedH(sites) == [i \in DOMAIN sites |-> ImageOfSites(sites[i])]

\* Row masks as the implementation defines them (x_indices / z_indices).
XMask(H) == { i \in DOMAIN H : H[i].x # {} }
ZMask(H) == { i \in DOMAIN H : H[i].z # {} }
IsCSS(H) == XMask(H) \cap ZMask(H) = {}

\* Ordered sub-block: rows of H selected by mask, in index order, projected
\* on the x (resp. z) half.  SelectIdx gives the increasing enumeration.
RECURSIVE IncSeq(_, _, _)
IncSeq(S, lo, hi) == IF lo > hi THEN <<>>
                     ELSE (IF lo \in S THEN <<lo>> ELSE <<>>) \o IncSeq(S, lo + 1, hi)
MaskSeq(H, M) == IncSeq(M, 1, Len(H))
HxOf(H) == LET idx == MaskSeq(H, XMask(H)) IN [j \in DOMAIN idx |-> H[idx[j]].x]
HzOf(H) == LET idx == MaskSeq(H, ZMask(H)) IN [j \in DOMAIN idx |-> H[idx[j]].z]

Distinct(seq) == \A a \in DOMAIN seq : \A b \in DOMAIN seq : a < b => seq[a] # seq[b]

\* Syndrome from a bare sequence of generators.
SyndromeH(H, e) == { i \in DOMAIN H : Symp(H[i], e) = 1 }
=============================================================================
