----------------------------- MODULE C19_Data -----------------------------
(* C19, spec -> code: one record per generate-input invocation: the        *)
(* arguments (as enumerated by GenInput_Model) and what the specifications  *)
(* written under inputs/ (one per "ranges" block) contain when read back by *)
(* of <<size index, eta index, rate in units>> (0 / -1 where the           *)
(* simulation carries a value that was not requested).                     *)
EXTENDS DataDriven, GenInput

VARIABLE i
Init == i = 0
Next == i < NRecs /\ i' = i + 1

AsArgs(r) == [sizes |-> r.args.sizes, etas |-> r.args.etas, bias |-> r.args.bias,
              prob |-> r.args.prob]

AllSims(r) == UNION { { <<f, j>> : j \in DOMAIN r.files[f] } : f \in DOMAIN r.files }
SimAt(r, p) == r.files[p[1]][p[2]]
CountOf(r, t) == Cardinality({ p \in AllSims(r) : SimAt(r, p) = t })

Failed(r) ==
  LET a == AsArgs(r)
      Req == Requested(a)
  IN (IF r.raised = "" THEN {} ELSE {"command_or_readback_raised"})
\cup (IF r.raised # "" \/ Len(r.files) = Len(a.etas) THEN {} ELSE {"one_specification_per_bias_ratio"})
\cup (IF r.raised # "" \/ \A f \in DOMAIN r.files : \A j \in DOMAIN r.files[f] : \A k \in DOMAIN r.files[f] :
            r.files[f][j][2] = r.files[f][k][2]
      THEN {} ELSE {"a_file_mixes_bias_ratios"})
\cup (IF r.raised # "" \/ \A p \in AllSims(r) : <<SimAt(r, p)[1], SimAt(r, p)[2], SimAt(r, p)[3]>> \in Req
      THEN {} ELSE {"simulation_outside_requested_grid"})
\cup (IF r.raised # "" \/ \A t \in Req : CountOf(r, <<t[1], t[2], t[3]>>) >= 1
      THEN {} ELSE {"requested_combination_missing"})
\cup (IF r.raised # "" \/ \A t \in Req : CountOf(r, <<t[1], t[2], t[3]>>) <= 1
      THEN {} ELSE {"requested_combination_duplicated"})
\cup (IF r.raised # "" \/ r.args.prob.kind # "range" \/
         \A p \in AllSims(r) : SimAt(r, p)[3] <= a.prob.max
      THEN {} ELSE {"error_rate_beyond_max"})

Judged == i = 0 \/ Report(Recs[i].id, Failed(Recs[i]))
Post == PrintT(<<"CHECKED", TLCGet("distinct") - 1>>)
=============================================================================
