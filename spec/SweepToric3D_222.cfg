CONSTANTS LX = 2
 LY = 2
 LZ = 2
 MaxW = 2
 MaxSweeps = 4
 Update = "toggle"
INIT Init
NEXT Next
INVARIANT Tracks
