CONSTANTS LX = 3
 LY = 3
 LZ = 3
 MaxW = 1
 MaxSweeps = 12
 Update = "toggle"
INIT Init
NEXT Next
INVARIANT Tracks
INVARIANT Cleared
INVARIANT ResidualTrivial
