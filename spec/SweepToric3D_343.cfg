CONSTANTS LX = 3
 LY = 4
 LZ = 3
 MaxW = 1
 MaxSweeps = 14
 Update = "toggle"
INIT Init
NEXT Next
INVARIANT Tracks
INVARIANT Cleared
INVARIANT ResidualTrivial
