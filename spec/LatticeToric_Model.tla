------------------------- MODULE LatticeToric_Model -------------------------
(* Design-level check of the native toric lattices: for every size up to   *)
(* the bound, and every relabelling offered, the native code is a valid    *)
(* [[n,k]] code; the index maps are mutually inverse; and (data mode) the  *)
(* implementation's exports equal the native model coordinate by           *)
(* coordinate.                                                             *)
EXTENDS LatticeToric, TLC

CONSTANTS Max2, Max3

VARIABLES dim, L, def
Init == \/ /\ dim = 2 /\ L \in [1..2 -> 2..Max2] /\ def \in {"none", "XZZX-x", "XZZX-y", "XY"}
        \/ /\ dim = 3 /\ L \in [1..3 -> 2..Max3] /\ def \in {"none", "XZZX-x", "XZZX-y", "XZZX-z"}
Next == UNCHANGED <<dim, L, def>>

Base == IF dim = 2 THEN Toric2D(L) ELSE Toric3D(L)
D == CASE def = "none" -> [q \in 0..(Base.n - 1) |-> IdPerm]
       [] def = "XY" -> XY2(L)
       [] def = "XZZX-x" -> IF dim = 2 THEN XZZX2(L, "x") ELSE XZZX3(L, "x")
       [] def = "XZZX-y" -> IF dim = 2 THEN XZZX2(L, "y") ELSE XZZX3(L, "y")
       [] def = "XZZX-z" -> XZZX3(L, "z")
Code == DeformCode(Base, D)

Valid == ValidCode(Code)
IndexMaps == IF dim = 2
             THEN \A i \in DOMAIN Q2(L) : QIdx2(L, Q2(L)[i]) = i - 1
             ELSE /\ \A i \in DOMAIN Q3(L) : QIdx3(L, Q3(L)[i]) = i - 1
                  /\ \A i \in DOMAIN S3(L) : SIdx3(L, S3(L)[i]) = i
LogicalWeights == LET W == { Wt(l) : l \in RangeOf(Code.lx) \cup RangeOf(Code.lz) } IN
                  (CHOOSE m \in W : \A x \in W : m <= x) = (IF dim = 2 THEN Distance2(L) ELSE Distance3(L))
StabWeights == \A i \in DOMAIN Code.stabs : Wt(Code.stabs[i]) \in (IF dim = 2 THEN {4, 2} ELSE {6, 4, 3, 2})
=============================================================================
