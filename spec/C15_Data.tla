----------------------------- MODULE C15_Data -----------------------------
(***************************************************************************)
(* C15, spec -> code: one record per layout emitted by Analysis_Model:     *)
(* the pool of trials, the layout, and what Analysis(paths) reported per   *)
(* key after the layout was materialised as real files (json, json.gz,     *)
(* zip members, merge-results output) and read back.  Counts are compared  *)
(* exactly; estimators and standard errors (floats, given as integers      *)
(* over G after the algebraic rearrangement stated next to each clause)    *)
(* by cross-multiplication.                                                *)
(***************************************************************************)
EXTENDS DataDriven, Analysis

VARIABLE i
Init == i = 0
Next == i < NRecs /\ i' = i + 1

G == 1000000
Close(k, num, den, tol) == LET d == k * den - num * G IN (IF d < 0 THEN 0 - d ELSE d) <= tol * den

AsTrialRec(t) == [key |-> t.key, ee |-> t.ee, cs |-> t.cs, ok |-> t.ok]

FailedKey(r, key) ==
  LET T == [j \in DOMAIN r.pool |-> AsTrialRec(r.pool[j])]
      S == TrialsOf(r.layout, T, key)
      o == r.observed[key]
      k == o.k
      \* every trial of the pool stands for r.mult identical trials (large data
      \* points); the estimators are ratios and do not depend on mult
      m == r.mult
      n == NTrials(S)
      nf == NFail(S, T)
  IN (IF o.present THEN {} ELSE {"key_reported"})
\cup (IF ~o.present \/ (o.n_trials = m * n /\ o.n_fail = m * nf) THEN {} ELSE {"pooled_n_trials_and_n_fail"})
\cup (IF ~o.present \/ Close(o.p_est_k, nf, n, 2) THEN {} ELSE {"p_est_is_n_fail_over_n_trials"})
     \* p_se^2 (n + 1) = p (1 - p)
\cup (IF ~o.present \/ Close(o.p_se2n1_k, nf * (n - nf), n * n, 2) THEN {} ELSE {"p_se_is_sqrt_p_1_minus_p_over_n_plus_1"})
\cup (IF ~o.present \/ (o.n_trials_X = m * NTrialsSector(S, T, k) /\ o.n_trials_Z = m * NTrialsSector(S, T, k))
      THEN {} ELSE {"sector_trials_are_k_times_in_codespace_trials"})
\cup (IF ~o.present \/ (o.n_fail_X = m * NFailX(S, T, k) /\ o.n_fail_Z = m * NFailZ(S, T, k))
      THEN {} ELSE {"sector_fails_are_flagged_bits_among_in_codespace_trials"})
     \* (1 - p_word)^k = 1 - p
\cup (IF ~o.present \/ Close(o.word_k, n - nf, n, 2) THEN {} ELSE {"word_error_rate_formula"})
     \* (p_word_se k (1 - p_word)^(k-1))^2 (n + 1) = p (1 - p)
\cup (IF ~o.present \/ nf = n \/ Close(o.word_se2n1_k, nf * (n - nf), n * n, 4) THEN {} ELSE {"word_error_rate_standard_error"})
\cup (IF ~o.present \/ \A j \in DOMAIN o.single :
            LET e == o.single[j]  c == NSingle(S, T, k, e.i, e.s) IN Close(e.est_k, c, n, 2)
      THEN {} ELSE {"single_qubit_rates_count_patterns"})
\cup (IF ~o.present \/ \A j \in DOMAIN o.single :
            LET e == o.single[j]  c == NSingle(S, T, k, e.i, e.s) IN Close(e.se2n1_k, c * (n - c), n * n, 2)
      THEN {} ELSE {"single_qubit_rates_have_their_own_standard_error"})

Failed(r) ==
     (IF r.raised = "" THEN {} ELSE {"analysis_raised"})
\cup (IF r.raised # "" THEN {} ELSE UNION { FailedKey(r, key) : key \in {"A", "B"} })
\cup (IF r.raised # "" \/ r.n_rows = 2 THEN {} ELSE {"one_row_per_simulation"})

Judged == i = 0 \/ Report(Recs[i].id, Failed(Recs[i]))
Post == PrintT(<<"CHECKED", TLCGet("distinct") - 1>>)
=============================================================================
