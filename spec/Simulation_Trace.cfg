CONSTANT Den = 8
INIT Init
NEXT Next
INVARIANT Judged
INVARIANT Aligned
POSTCONDITION Post
