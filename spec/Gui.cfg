INIT Init
NEXT Next
INVARIANT MenuConsistent
INVARIANT EveryCodeHasADecoder
INVARIANT EmitCodeData
INVARIANT EmitDecode
INVARIANT EmitNames
