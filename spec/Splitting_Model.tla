-------------------------- MODULE Splitting_Model --------------------------
(* Design-level check of Splitting.tla on all errors of N qubits for every *)
(* assignment of exponents from a small set: the proposal is symmetric     *)
(* (proposing s at q from new leads back to cur, with the same number of   *)
(* allowed Paulis), the acceptance rule satisfies detailed balance with    *)
(* respect to the channel's likelihood                                     *)
(*      2^-Bits(cur) 2^-Accept(cur,new) = 2^-Bits(new) 2^-Accept(new,cur)  *)
(* and a step never leaves the set of possible errors.                     *)
EXTENDS Splitting, TLC

CONSTANTS N, Exps      \* Exps: the exponent values (Inf allowed)

VARIABLES Ex, cur
Init == /\ Ex \in [1..N -> { f \in [Letters -> Exps \cup {1}] : f["I"] = 1 /\ \E s \in {"X", "Y", "Z"} : f[s] < Inf }]
        /\ cur \in { e \in [1..N -> Letters] : Possible(Ex, e) }
\* a proposal of likelihood zero (a Pauli the channel excludes can arise as a
\* product: Y times X = Z) has acceptance probability 0: its coin never comes up
Next == \E q \in 1..N : \E s \in Allowed(Ex, q) : \E fails \in BOOLEAN :
           \E coin \in (IF Possible(Ex, Propose(cur, q, s)) THEN BOOLEAN ELSE {FALSE}) :
           /\ cur' = Keep(cur, Propose(cur, q, s), coin, fails)
           /\ UNCHANGED Ex

StaysPossible == Possible(Ex, cur)
SymmetricProposal ==
    \A q \in 1..N : \A s \in Allowed(Ex, q) :
        LET new == Propose(cur, q, s) IN Propose(new, q, s) = cur
DetailedBalance ==
    \A q \in 1..N : \A s \in Allowed(Ex, q) :
        LET new == Propose(cur, q, s) IN
        Possible(Ex, new) =>
        Bits(Ex, cur) + AcceptBits(Ex, cur, new) = Bits(Ex, new) + AcceptBits(Ex, new, cur)
AcceptanceIsAProbability ==
    \A q \in 1..N : \A s \in Allowed(Ex, q) : AcceptBits(Ex, cur, Propose(cur, q, s)) >= 0
=============================================================================
