CONSTANTS Update = "assign"
          Depth = 3
INIT Init
NEXT Next
INVARIANT TracksInv
INVARIANT CleanExitInv
