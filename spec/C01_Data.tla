----------------------------- MODULE C01_Data -----------------------------
(* C01, code -> spec: every exported library code object must satisfy     *)
(* Pauli!ValidCode.  One record per (class, size, deformation, axis).      *)
EXTENDS DataDriven, Pauli

VARIABLE i
Init == i = 0
Next == i < NRecs /\ i' = i + 1

Failed(r) == FailedValid(AsCode(r))

Judged == i = 0 \/ Report(Recs[i].id, Failed(Recs[i]))
Post == PrintT(<<"CHECKED", TLCGet("distinct") - 1>>)
=============================================================================
