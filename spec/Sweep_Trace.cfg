CONSTANT Update = "toggle"
INIT Init
NEXT Next
INVARIANT Judged
POSTCONDITION Post
