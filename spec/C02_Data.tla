----------------------------- MODULE C02_Data -----------------------------
(* C02, code -> spec: every derived view of an exported code object must   *)
(* equal CodeObject's derivation from the primitive lattice definition.    *)
EXTENDS DataDriven, CodeObject

VARIABLE i
Init == i = 0
Next == i < NRecs /\ i' = i + 1

AsSites(s) == { <<p[1], p[2]>> : p \in AsSet(s) }
SeqOfSets(s) == [j \in DOMAIN s |-> AsSet(s[j])]

Failed(r) ==
  LET n == r.n
      H == AsOps(r.stabs)
      sites == [j \in DOMAIN r.raw_stabs |-> AsSites(r.raw_stabs[j])]
      xm == AsSet(r.xmask)      \* 1-based row numbers
      zm == AsSet(r.zmask)
      css == IsCSS(H)
  IN
     (IF Distinct(r.qcoords) /\ Distinct(r.scoords) THEN {} ELSE {"coordinates_distinct"})
\cup (IF AsSet(r.qcoords) \cap AsSet(r.scoords) = {} THEN {} ELSE {"qubits_stabilizers_disjoint"})
\cup (IF Len(r.qcoords) = n /\ Len(r.scoords) = Len(r.stabs) /\ Len(r.raw_stabs) = Len(r.stabs)
      THEN {} ELSE {"index_lengths"})
\cup (IF \A j \in DOMAIN sites : \A s \in sites[j] : s[1] \in 0..(n-1)
      THEN {} ELSE {"support_inside_qubit_set"})
\cup (IF \A j \in DOMAIN sites : sites[j] # {} /\ Functional(sites[j])
      THEN {} ELSE {"support_nonempty"})
\cup (IF Len(r.raw_stabs) = Len(r.stabs) /\ H = DerivedH(sites) THEN {} ELSE {"row_is_bsf_image"})
\cup (IF \A j \in DOMAIN H : Supp(H[j]) # {} THEN {} ELSE {"row_nonempty"})
\cup (IF xm = XMask(H) /\ zm = ZMask(H) THEN {} ELSE {"row_masks"})
\cup (IF r.is_css = css THEN {} ELSE {"is_css_flag"})
\cup (IF css => (xm \cap zm = {} /\ xm \cup zm = DOMAIN H) THEN {} ELSE {"masks_partition_rows"})
\cup (IF css => (r.hx_ok /\ SeqOfSets(r.hx) = HxOf(H) /\ SeqOfSets(r.hz) = HzOf(H))
      THEN {} ELSE {"hx_hz_blocks"})
\cup (IF (~css) => r.hx_raises THEN {} ELSE {"hx_defined_for_non_css"})
\cup (IF \A j \in DOMAIN r.conv :
           LET S == AsSites(r.conv[j].sites) IN
           /\ AsOp(r.conv[j].bsf) = ImageOfSites(S)
           /\ AsSites(r.conv[j].back) = S
      THEN {} ELSE {"dict_bsf_roundtrip"})
\cup (IF \A j \in DOMAIN r.unconv :
           LET a == AsOp(r.unconv[j].bsf) IN
           /\ AsSites(r.unconv[j].sites) = SitesOf(a)
           /\ AsOp(r.unconv[j].back) = a
      THEN {} ELSE {"bsf_dict_roundtrip"})
\cup (IF \A j \in DOMAIN r.synd :
           LET e == AsOp(r.synd[j].e) IN AsSet(r.synd[j].s) = { t - 1 : t \in SyndromeH(H, e) }
      THEN {} ELSE {"syndrome_is_symplectic_product"})
\cup (IF css => \A j \in DOMAIN r.synd :
           LET e == AsOp(r.synd[j].e)
               s == { t + 1 : t \in AsSet(r.synd[j].s) } IN
           /\ s \cap xm = SyndromeH(H, Op({}, e.z)) \cap xm
           /\ s \cap zm = SyndromeH(H, Op(e.x, {})) \cap zm
      THEN {} ELSE {"syndrome_sectors"})
\cup (IF css => \A j \in DOMAIN r.synd :
           LET s == { t + 1 : t \in AsSet(r.synd[j].s) }
               xs == MaskSeq(H, xm)  zs == MaskSeq(H, zm) IN
           /\ r.synd[j].lens = <<Len(xs), Len(zs)>>
           /\ AsSet(r.synd[j].sx) = { p - 1 : p \in { q \in DOMAIN xs : xs[q] \in s } }
           /\ AsSet(r.synd[j].sz) = { p - 1 : p \in { q \in DOMAIN zs : zs[q] \in s } }
      THEN {} ELSE {"extract_x_z_syndrome_is_the_masked_part"})
\cup (LET a == r.api IN
      IF /\ a.n_stabilizers = Len(r.stabs)
         /\ a.coordinates_as_defined
         /\ a.qubits_are_qubits /\ a.stabs_are_not_qubits /\ a.stabs_are_stabs
         /\ a.qubits_are_not_stabs /\ a.typed_membership
         /\ a.qubit_index = [q \in DOMAIN r.qcoords |-> q - 1]
         /\ a.stabilizer_index = [q \in DOMAIN r.scoords |-> q - 1]
         /\ (\A t1, t2 \in DOMAIN a.type_index : t1 # t2 => AsSet(a.type_index[t1]) \cap AsSet(a.type_index[t2]) = {})
         /\ UNION { AsSet(a.type_index[t]) : t \in DOMAIN a.type_index } = { q - 1 : q \in DOMAIN r.scoords }
      THEN {} ELSE {"membership_and_index_helpers"})
\cup (IF \A j \in DOMAIN r.twin : r.twin[j].a = r.twin[j].b THEN {} ELSE {"same_export_in_every_process_and_after_any_history"})

Judged == i = 0 \/ Report(Recs[i].id, Failed(Recs[i]))
Post == PrintT(<<"CHECKED", TLCGet("distinct") - 1>>)
=============================================================================
