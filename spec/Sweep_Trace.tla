----------------------------- MODULE Sweep_Trace -----------------------------
(***************************************************************************)
(* C10, code -> spec.  Records of VERIF_DATA:                              *)
(*  kind "geometry": for one (decoder, lattice) the faces toggled by       *)
(*     flip_edge(e, zeros) for EVERY edge e; must equal Sweep!Boundary.    *)
(*  kind "run": one decode() of a sweep decoder, logged from outside:      *)
(*     err, signs0, steps = <<[flips, signs, corr]>> (state after each     *)
(*     sweep_move as the implementation holds it), returned correction.    *)
(*     Replayed through Sweep!NewSigns / NewCorr ("toggle"); every state   *)
(*     is judged against Tracks / CleanExit.                               *)
(***************************************************************************)
EXTENDS DataDriven, Sweep

VARIABLES tid, l, signs, corr

Steps(t) == Recs[t].steps
Stabs(t) == AsOps(Recs[t].stabs)
Faces(t) == { j + 1 : j \in AsSet(Recs[t].faces) }

Init == /\ tid \in 1..NRecs /\ l = 0
        /\ signs = (IF Recs[tid].kind = "run" THEN { j + 1 : j \in AsSet(Recs[tid].signs0) } ELSE {})
        /\ corr = {}

\* the state the implementation held after step j (j = 0: initial state)
LoggedSigns(t, j) == IF j = 0 THEN { q + 1 : q \in AsSet(Recs[t].signs0) }
                     ELSE { q + 1 : q \in AsSet(Steps(t)[j].signs) }
LoggedCorr(t, j) == IF j = 0 THEN {} ELSE AsSet(Steps(t)[j].corr)

\* one sweep_move: the specification's successor of the state the
\* implementation was in (so one deviation does not cascade)
Step == /\ Recs[tid].kind = "run"
        /\ l < Len(Steps(tid))
        /\ l' = l + 1
        /\ LET F == AsSet(Steps(tid)[l + 1].flips) IN
           /\ signs' = NewSigns(Stabs(tid), Faces(tid), LoggedSigns(tid, l), F)
           /\ corr' = NewCorr(LoggedCorr(tid, l), F)
        /\ UNCHANGED tid
Next == Step

FailedGeometry(r) ==
  LET S == AsOps(r.stabs)
      FS == { j + 1 : j \in AsSet(r.faces) } IN
     (IF \A j \in DOMAIN r.toggles :
           { f + 1 : f \in AsSet(r.toggles[j][2]) } = Boundary(S, FS, r.toggles[j][1])
      THEN {} ELSE {"flip_edge_toggles_exactly_the_anticommuting_faces"})
\cup (IF { r.toggles[j][1] : j \in DOMAIN r.toggles } = 0..(r.n - 1) THEN {} ELSE {"every_edge_probed"})
\cup (IF \A j \in DOMAIN r.toggles : r.toggles[j][3] = "" THEN {} ELSE {"flip_edge_raised"})

FailedRunState(r) ==
  LET S == AsOps(r.stabs)
      err == AsSet(r.err)
      FS == { j + 1 : j \in AsSet(r.faces) }
      isigns == IF l = 0 THEN { j + 1 : j \in AsSet(r.signs0) } ELSE { j + 1 : j \in AsSet(r.steps[l].signs) }
      icorr == IF l = 0 THEN {} ELSE AsSet(r.steps[l].corr)
      last == l = Len(r.steps)
  IN (IF isigns = signs THEN {} ELSE {"tracked_signs_follow_the_flips"})
\cup (IF icorr = corr THEN {} ELSE {"edge_flipped_twice_is_removed_from_correction"})
\cup (IF Tracks(S, FS, err, isigns, icorr) THEN {} ELSE {"tracked_signs_equal_true_residual_syndrome"})
\cup (IF l > 0 \/ isigns = FaceSyndrome(S, FS, err) THEN {} ELSE {"initial_state_is_face_syndrome"})
\cup (IF ~last \/ r.raised # "" \/ (AsOp(r.returned).x = {} /\ AsOp(r.returned).z = icorr) THEN {} ELSE {"returned_correction_is_Z_only_and_the_accumulated_one"})
\cup (IF ~last \/ r.raised # "" \/ CleanExit(S, FS, err, isigns, AsOp(r.returned).z) THEN {} ELSE {"clean_exit_means_zero_residual_face_syndrome"})
\cup (IF ~last \/ r.raised = "" THEN {} ELSE {"decode_raised"})

Judged ==
  LET r == Recs[tid]
      f == IF r.kind = "geometry" THEN FailedGeometry(r) ELSE FailedRunState(r)
  IN f = {} \/ PrintT(<<"REJECT", r.id, { c \o "@" \o ToString(l) : c \in f }>>)

Post == PrintT(<<"CHECKED", TLCGet("distinct")>>)
=============================================================================
