CONSTANT Den = 6
INIT Init
NEXT Next
INVARIANT NormalisedInv
INVARIANT SamplerMeasure
INVARIANT SamplerMeasureDeformed
INVARIANT NoErrorAtZero
INVARIANT AlwaysErrorAtOne
INVARIANT TotalProbability
INVARIANT SumOverTwoQubits
