----------------------------- MODULE Simulation -----------------------------
(***************************************************************************)
(* The Monte-Carlo trial (simulation.run_once) and the accounting of       *)
(* DirectSimulation (C11).                                                 *)
(*                                                                         *)
(* A trial is the pipeline                                                 *)
(*    error := Generate   syndrome := Measure(error)                       *)
(*    correction := Decode(syndrome)   total := error (+) correction       *)
(*    effective := Effect(total)   codespace := Syndrome(total) = {}       *)
(*    success := codespace /\ effective = 0                                *)
(* TrialConsistent states what must hold of a recorded trial whatever the  *)
(* decoder answered.  DirectSimulation is a state machine whose state is   *)
(* (n_runs, three result lists); Run(k) appends k trials; the invariant    *)
(* is that the lists have length n_runs at every call boundary, and        *)
(* GetResults reports n_fail = #failures, p_est = n_fail / n_runs,         *)
(* p_se^2 = p (1 - p) / (n_runs + 1).                                      *)
(***************************************************************************)
EXTENDS Pauli

\* positions (0-based) of the 1s in the 2k-bit effective error
EffPositions(c, e) == { j - 1 : j \in EffectX(c, e) } \cup { c.k + j - 1 : j \in EffectZ(c, e) }

FailedTrial(c, t) ==
  LET total == Mul(t.error, t.correction) IN
     (IF t.syndrome = Syndrome(c, t.error) THEN {} ELSE {"syndrome_is_syndrome_of_error"})
\cup (IF t.effective = EffPositions(c, total) THEN {} ELSE {"effective_error_is_logical_effect_of_residual"})
\cup (IF t.codespace = (Syndrome(c, total) = {}) THEN {} ELSE {"codespace_iff_zero_residual_syndrome"})
\cup (IF t.success = (t.codespace /\ t.effective = {}) THEN {} ELSE {"success_iff_codespace_and_no_effective_error"})

\* accounting state machine
VARIABLES nruns, ee, succ, cs
Init == nruns = 0 /\ ee = <<>> /\ succ = <<>> /\ cs = <<>>
Run(trials) == /\ nruns' = nruns + Len(trials)
               /\ ee' = ee \o [j \in DOMAIN trials |-> trials[j].effective]
               /\ succ' = succ \o [j \in DOMAIN trials |-> trials[j].success]
               /\ cs' = cs \o [j \in DOMAIN trials |-> trials[j].codespace]
ListsAligned == Len(ee) = nruns /\ Len(succ) = nruns /\ Len(cs) = nruns
NFail == Cardinality({ j \in DOMAIN succ : ~succ[j] })
=============================================================================
