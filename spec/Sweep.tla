-------------------------------- MODULE Sweep --------------------------------
(***************************************************************************)
(* The sweep decoders' cellular automaton (SweepDecoder3D,                 *)
(* RotatedSweepDecoder3D) as far as property C10 is concerned.             *)
(*                                                                         *)
(* The lattice is data: `stabs` (all stabilizer generators of the code as  *)
(* operators) and the number of qubits n.  An edge is a qubit; flipping it *)
(* applies Z there.  Boundary(e) is the set of stabilizers that            *)
(* (among the faces) anticommute with Z on e - by definition the faces      *)
(* whose excitation a flip of e must toggle.                                                  *)
(*                                                                         *)
(* State: err (the Z error being decoded, a set of edges), signs (the      *)
(* excitation pattern the automaton tracks), corr (correction so far).     *)
(* SweepMove(F): the set F of edges chosen by the sweep rule is flipped.   *)
(* Which edges the rule chooses is not constrained (the property does not  *)
(* depend on it); what a flip does to signs and corr is.  Update selects   *)
(* the correction update: "toggle" (an edge flipped twice is removed) is   *)
(* what C10 demands; "assign" is the deviant variant kept as a negative    *)
(* control for the model checker.                                          *)
(***************************************************************************)
EXTENDS Pauli

CONSTANT Update

ZOn(E) == Op({}, E)
\* `faces` = the stabilizers the lattice calls faces (stabilizer_type = "face")
Boundary(stabs, faces, e) == { f \in faces : Symp(stabs[f], ZOn({e})) = 1 }
FaceSyndrome(stabs, faces, E) == { f \in faces : Symp(stabs[f], ZOn(E)) = 1 }

\* XOR of the boundaries of a set of edges
RECURSIVE XorBoundaries(_, _, _)
XorBoundaries(stabs, faces, F) ==
    IF F = {} THEN {}
    ELSE LET e == CHOOSE e \in F : TRUE IN
         SDiff(Boundary(stabs, faces, e), XorBoundaries(stabs, faces, F \ {e}))

NewSigns(stabs, faces, signs, F) == SDiff(signs, XorBoundaries(stabs, faces, F))
NewCorr(corr, F) == IF Update = "toggle" THEN SDiff(corr, F) ELSE corr \cup F

\* the invariants of C10
Tracks(stabs, faces, err, signs, corr) == signs = FaceSyndrome(stabs, faces, SDiff(err, corr))
CleanExit(stabs, faces, err, signs, corr) == signs = {} => FaceSyndrome(stabs, faces, SDiff(err, corr)) = {}
=============================================================================
