CONSTANTS
  Props = {"qubit_index", "stabilizer_index", "stabilizer_matrix", "Hx", "Hz", "logicals_x", "logicals_z", "x_indices", "z_indices", "is_css", "d", "k", "stabilizer_types", "syndrome", "effect"}
  Deformations = {"D1", "D2", "D3"}
  ClearedOnDeform = {"qubit_index", "stabilizer_index", "stabilizer_matrix", "Hx", "Hz", "logicals_x", "logicals_z", "x_indices", "z_indices", "is_css", "d", "k", "stabilizer_types", "syndrome", "effect"}
  Compose = FALSE
  MaxDeforms = 4
  Depth = 10
INIT Init
NEXT Next
INVARIANT NoStaleCache
INVARIANT LastDeformWins
CONSTRAINT Emit
CONSTRAINT Bound
