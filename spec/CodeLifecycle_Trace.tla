------------------------ MODULE CodeLifecycle_Trace ------------------------
(***************************************************************************)
(* C08 life-cycle, code -> spec.  Each record of VERIF_DATA is one         *)
(* behaviour executed on a REAL code object: a sequence of events          *)
(*   ["deform", d]              deform(d) was called                        *)
(*   ["access", p, matches]     property p was read; `matches` is the set   *)
(*                              of deformation names ("" = undeformed,      *)
(*                              "D1", ...) whose value on a FRESH object    *)
(*                              deformed once equals the value observed     *)
(* The trace is replayed through the actions of CodeLifecycle (with the    *)
(* implementation's constants: every cache cleared by deform(), no         *)
(* composition).  After Access(p) the spec says the value read is the one  *)
(* computed under cachedUnder[p]; the event is accepted iff that           *)
(* deformation is among the matches.  All traces are validated in one TLC  *)
(* run (tid = trace number, l = position).                                 *)
(***************************************************************************)
EXTENDS DataDriven

CONSTANTS Props, Deformations, ClearedOnDeform, Compose, MaxDeforms, Depth
VARIABLES applied, cachedUnder, hist, ndef, tid, l
L == INSTANCE CodeLifecycle

Ev(t, j) == Recs[t].events[j]

Init == /\ tid \in 1..NRecs
        /\ l = 1
        /\ L!Init

StepDeform == /\ l <= Len(Recs[tid].events)
              /\ Ev(tid, l)[1] = "deform"
              /\ L!Deform(Ev(tid, l)[2])
              /\ l' = l + 1 /\ UNCHANGED tid

StepAccess == /\ l <= Len(Recs[tid].events)
              /\ Ev(tid, l)[1] = "access"
              /\ L!Access(Ev(tid, l)[2])
              /\ l' = l + 1 /\ UNCHANGED tid

Next == StepDeform \/ StepAccess

NameOf(a) == IF a = <<>> THEN "" ELSE a[Len(a)]

\* judgement of the event just consumed
Judged ==
    (l > 1 /\ Ev(tid, l - 1)[1] = "access") =>
        LET p == Ev(tid, l - 1)[2]
            under == NameOf(cachedUnder[p]) IN
        (under \in AsSet(Ev(tid, l - 1)[3])
         \/ PrintT(<<"REJECT", Recs[tid].id,
                     {"step_" \o ToString(l - 1) \o "_access_" \o p \o "_is_not_the_value_under_[" \o under \o "]"}>>))

NoStale == L!NoStaleCache
LastWins == L!LastDeformWins
Post == PrintT(<<"CHECKED", TLCGet("distinct") - NRecs>>)
=============================================================================
