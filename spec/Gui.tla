--------------------------------- MODULE Gui ---------------------------------
(***************************************************************************)
(* The visualizer: the client menu of gui/js/main.js as a state machine    *)
(* and the requests it can send to the Flask backend (gui/_gui.py).  C20.  *)
(*                                                                         *)
(* Tables (VERIF_DATA, one record), taken from the library:                *)
(*   codes    : <<[name, id, dim, deformations, sizes]>>   the GUI's codes *)
(*              (`sizes` = the <<L, coprime>> pairs of the menu that lie   *)
(*              inside the class's supported family and the tier's bound)  *)
(*   decoders : <<[name, allowed]>>  GUI decoder name, allowed_codes (the  *)
(*              list of class ids, or <<"*">> for "all codes")             *)
(* The menu (updateMenu in main.js): changing the code re-reads the        *)
(* deformation and decoder names; a deformation that is no longer offered  *)
(* falls back to "None", a decoder that is no longer offered to the first  *)
(* offered one.                                                            *)
(***************************************************************************)
EXTENDS DataDriven, FiniteSets

T == Recs[1]
CodeIdx == DOMAIN T.codes
C(i) == T.codes[i]
Defs(i) == {"None"} \cup AsSet(C(i).deformations)
\* DecoderNames(code) = the decoders declaring support for it, in GUI order
AllowedSeq(i) == SelectSeq([j \in DOMAIN T.decoders |-> T.decoders[j].name],
                           LAMBDA nm : \E j \in DOMAIN T.decoders :
                               /\ T.decoders[j].name = nm
                               /\ (T.decoders[j].allowed = <<"*">> \/ C(i).id \in AsSet(T.decoders[j].allowed)))
Allowed(i) == AsSet(AllowedSeq(i))
Models == {"Pure X", "Pure Y", "Pure Z", "Depolarizing"}

VARIABLES dim, code, rotated, coprime, L, cdef, ndef, dec, em
vars == <<dim, code, rotated, coprime, L, cdef, ndef, dec, em>>

DefaultCode(d) == CHOOSE i \in CodeIdx : C(i).name = (IF d = 2 THEN "Toric 2D" ELSE "Toric 3D")

Init == /\ dim \in {2, 3}
        /\ code = DefaultCode(dim)
        /\ rotated = FALSE /\ coprime = FALSE
        /\ L = (IF dim = 2 THEN 6 ELSE 4)
        /\ cdef = "None" /\ ndef = "None" /\ dec = "BP-OSD" /\ em = "Depolarizing"

\* updateMenu() after the code changed to i
Updated(i) == /\ cdef' = (IF cdef \in Defs(i) THEN cdef ELSE "None")
              /\ ndef' = (IF ndef \in Defs(i) THEN ndef ELSE "None")
              /\ dec' = (IF dec \in Allowed(i) THEN dec ELSE AllowedSeq(i)[1])

ChangeCode == \E i \in CodeIdx : /\ C(i).dim = dim /\ code' = i /\ Updated(i)
                                 /\ UNCHANGED <<dim, rotated, coprime, L, em>>
ToggleRotated == rotated' = ~rotated /\ UNCHANGED <<dim, code, coprime, L, cdef, ndef, dec, em>>
ToggleCoprime == coprime' = ~coprime /\ UNCHANGED <<dim, code, rotated, L, cdef, ndef, dec, em>>
SetL == \E l \in 1..12 : L' = l /\ UNCHANGED <<dim, code, rotated, coprime, cdef, ndef, dec, em>>
SetCodeDef == \E d \in Defs(code) : cdef' = d /\ UNCHANGED <<dim, code, rotated, coprime, L, ndef, dec, em>>
SetNoiseDef == \E d \in Defs(code) : ndef' = d /\ UNCHANGED <<dim, code, rotated, coprime, L, cdef, dec, em>>
SetDecoder == \E d \in Allowed(code) : dec' = d /\ UNCHANGED <<dim, code, rotated, coprime, L, cdef, ndef, em>>
SetModel == \E m \in Models : em' = m /\ UNCHANGED <<dim, code, rotated, coprime, L, cdef, ndef, dec>>

Next == ChangeCode \/ ToggleRotated \/ ToggleCoprime \/ SetL \/ SetCodeDef \/ SetNoiseDef
        \/ SetDecoder \/ SetModel

\* the menu never holds a choice the backend does not offer for the code
MenuConsistent == cdef \in Defs(code) /\ ndef \in Defs(code) /\ dec \in Allowed(code)
EveryCodeHasADecoder == \A i \in CodeIdx : Allowed(i) # {}

\* ---- requests -----------------------------------------------------------
InFamily == <<L, coprime>> \in { <<s[1], s[2]>> : s \in AsSet(C(code).sizes) }
Size == <<IF coprime THEN L + 1 ELSE L, L, L>>

\* a code-data request is emitted once per (code, deformation, picture,
\* size): from the state in which the other menu entries are at rest
AtRest == ndef = "None" /\ em = "Depolarizing" /\ dec = AllowedSeq(code)[1]
EmitCodeData == ~(InFamily /\ AtRest) \/
    PrintT(<<"CODEDATA", C(code).name, cdef, rotated, Size[1], Size[2], Size[3]>>)
\* decode / new-errors requests: at the smallest offered size of each code
Smallest == LET S == { s[1] : s \in { t \in AsSet(C(code).sizes) : ~t[2] } } IN
            S # {} /\ L = CHOOSE m \in S : \A x \in S : m <= x
EmitDecode == ~(InFamily /\ Smallest /\ ~coprime /\ ~rotated) \/
    PrintT(<<"DECODE", C(code).name, cdef, ndef, dec, em, Size[1], Size[2], Size[3]>>)
EmitNames == ~(AtRest /\ cdef = "None" /\ ~rotated /\ ~coprime /\ L = 1) \/
    PrintT(<<"NAMES", C(code).name, AllowedSeq(code), C(code).deformations>>)
\* sessions (simulation mode): the code-data request the client sends after
\* every menu action, in order; level 1 starts a new session
SmallL == L <= 4
EmitStep == PrintT(<<"STEP", TLCGet("level"), C(code).name, cdef, rotated, Size[1], Size[2], Size[3], InFamily>>)
=============================================================================
