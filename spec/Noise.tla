-------------------------------- MODULE Noise --------------------------------
(***************************************************************************)
(* The i.i.d. Pauli channel of PauliErrorModel, over exact rationals       *)
(* (C07, C18, and the channel used by C11).                                *)
(*                                                                         *)
(* Grid: error rate p = pn/Den, direction r = (a, b, c)/Den with           *)
(* a + b + c = Den.  Every single-qubit probability is then an integer     *)
(* numerator over D2 = Den * Den:                                          *)
(*    I: (Den - pn) * Den,   X: pn * a,   Y: pn * b,   Z: pn * c.          *)
(* A channel is a function {"I","X","Y","Z"} -> numerator.                 *)
(***************************************************************************)
EXTENDS Naturals, Integers, FiniteSets, Sequences

CONSTANT Den
D2 == Den * Den

Paulis == <<"I", "X", "Y", "Z">>      \* the order fast_choice walks through

Chan(pn, r) == [I |-> (Den - pn) * Den, X |-> pn * r[1], Y |-> pn * r[2], Z |-> pn * r[3]]

Directions == { r \in [1..3 -> 0..Den] : r[1] + r[2] + r[3] = Den }
Rates == 0..Den

\* a noise deformation D (a permutation of X, Y, Z per qubit) relabels the
\* channel: the deformed model gives sigma the probability of D[sigma]
Deformed(ch, D) == [s \in {"I", "X", "Y", "Z"} |-> IF s = "I" THEN ch.I ELSE ch[D[s]]]

Normalised(ch) == ch.I + ch.X + ch.Y + ch.Z = D2 /\ \A s \in DOMAIN ch : ch[s] >= 0

(***************************************************************************)
(* Inverse-CDF sampler (fast_choice): u in [0,1) picks the first Pauli in  *)
(* the order I, X, Y, Z whose cumulative probability exceeds u.  Variates  *)
(* are the midpoints u_j = (2j+1) / (2 D2), j in 0..D2-1, so that no       *)
(* variate sits on a threshold: u_j < c / D2  <=>  2j + 1 < 2c.            *)
(***************************************************************************)
Cum(ch, k) == CASE k = 1 -> ch.I
                [] k = 2 -> ch.I + ch.X
                [] k = 3 -> ch.I + ch.X + ch.Y
                [] k = 4 -> ch.I + ch.X + ch.Y + ch.Z
Choice(j, ch) == IF 2 * j + 1 < 2 * Cum(ch, 1) THEN "I"
                 ELSE IF 2 * j + 1 < 2 * Cum(ch, 2) THEN "X"
                 ELSE IF 2 * j + 1 < 2 * Cum(ch, 3) THEN "Y"
                 ELSE "Z"      \* fall-through: the last option
Measure(ch, s) == Cardinality({ j \in 0..(D2 - 1) : Choice(j, ch) = s })

\* flip marginals handed to decoders
PX(ch) == ch.X + ch.Y      \* probability of an X-flip (X or Y)
PZ(ch) == ch.Z + ch.Y      \* probability of a Z-flip (Z or Y)

\* conditional probabilities of the joint (BP-OSD channel update), as
\* rationals <<num, den>>; den = 0 means "conditioning event impossible"
XGivenZ(ch, zflip) == IF zflip THEN <<ch.Y, ch.Z + ch.Y>> ELSE <<ch.X, ch.I + ch.X>>
ZGivenX(ch, xflip) == IF xflip THEN <<ch.Y, ch.X + ch.Y>> ELSE <<ch.Z, ch.I + ch.Z>>

(***************************************************************************)
(* Probability of an n-qubit error: product over qubits.  letters is the   *)
(* sequence of Paulis, chans the sequence of per-qubit channels; the       *)
(* result is a numerator over D2^n.                                        *)
(***************************************************************************)
RECURSIVE ProdNum(_, _, _)
ProdNum(letters, chans, q) == IF q = 0 THEN 1 ELSE chans[q][letters[q]] * ProdNum(letters, chans, q - 1)
PNum(letters, chans) == ProdNum(letters, chans, Len(letters))
RECURSIVE Pow(_, _)
Pow(b, e) == IF e = 0 THEN 1 ELSE b * Pow(b, e - 1)

\* |f - num/den| <= tol with f = k / G, all integers: |k * den - num * G| <= tolG * den
Close(k, G, num, den, tolG) ==
    LET d == k * den - num * G IN (IF d < 0 THEN 0 - d ELSE d) <= tolG * den
=============================================================================
