---------------------------- MODULE C17_Witness ----------------------------
(* C17, the other direction: the reported d must be the weight of SOME     *)
(* logical operator.  Used when the pruned search finds no logical of      *)
(* weight <= d: either one of the operators the code itself lists is a     *)
(* genuine non-trivial logical of weight d (then the search is at fault:   *)
(* machinery error), or none is - then d is understated: it is not the     *)
(* weight of a logical operator at all.                                    *)
EXTENDS DataDriven, Pauli

VARIABLE i
Init == i = 0
Next == i < NRecs /\ i' = i + 1

Genuine(cd, l) == /\ InCodespace(cd, l)
                  /\ Effect(cd, l) # NoEffect
Listed(cd) == RangeOf(cd.lx) \cup RangeOf(cd.lz)
Failed(r) == LET cd == AsCode(r) IN
             IF \E l \in Listed(cd) : Wt(l) = r.d /\ Genuine(cd, l) THEN {}
             ELSE {"reported_d_is_not_the_weight_of_any_logical_operator"}

Judged == i = 0 \/ Report(Recs[i].id, Failed(Recs[i]))
Post == PrintT(<<"CHECKED", TLCGet("distinct") - 1>>)
=============================================================================
