CONSTANT Big = FALSE
INIT Init
NEXT Next
INVARIANT DirectionsSumToOne
INVARIANT BiasIsLargest
INVARIANT RangeInclusive
INVARIANT GridSize
POSTCONDITION Post
