----------------------------- MODULE C01_Native -----------------------------
(* Cross-check of the implementation's exports against the native lattice  *)
(* models (LatticeToric.tla).  Records: [cls, size, def, axis, n, k,       *)
(* stabs, lx, lz].  A difference is reported with the tag "NOTE" - it is   *)
(* not a violation of any listed property (C01_Data decides those).        *)
EXTENDS DataDriven, LatticeToric

VARIABLE i
Init == i = 0
Next == i < NRecs /\ i' = i + 1

Native(r) ==
  LET L == r.size
      base == IF r.cls = "Toric2DCode" THEN Toric2D(L) ELSE Toric3D(L)
      D == CASE r.def = "none" -> [q \in 0..(base.n - 1) |-> IdPerm]
             [] r.def = "XY" -> XY2(L)
             [] r.def = "XZZX" -> IF r.cls = "Toric2DCode" THEN XZZX2(L, r.axis) ELSE XZZX3(L, r.axis)
  IN DeformCode(base, D)

Differences(r) ==
  LET N == Native(r)  c == AsCode(r) IN
     (IF c.n = N.n /\ c.k = N.k THEN {} ELSE {"n_k"})
\cup (IF c.stabs = N.stabs THEN {} ELSE {"stabilizers"})
\cup (IF c.lx = N.lx THEN {} ELSE {"logicals_x"})
\cup (IF c.lz = N.lz THEN {} ELSE {"logicals_z"})

Judged == i = 0 \/ Differences(Recs[i]) = {} \/ PrintT(<<"NOTE", Recs[i].id, Differences(Recs[i])>>)
Post == PrintT(<<"CHECKED", TLCGet("distinct") - 1>>)
=============================================================================
