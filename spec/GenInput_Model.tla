--------------------------- MODULE GenInput_Model ---------------------------
(* Enumerates argument combinations of generate-input (the domain of C19), *)
(* checks the arithmetic of GenInput on each, and writes them - with the   *)
(* expected rates and directions - to VERIF_OUT for replay through the     *)
(* real command.                                                           *)
EXTENDS GenInput, TLC, Json, IOUtils, FiniteSetsExt, SequencesExt

CONSTANT Big      \* TRUE: the larger (thorough) domain

Inf == <<1, 0>>
Etas == { <<1, 2>>, <<1, 1>>, <<3, 1>>, <<5, 2>>, <<10, 1>>, <<100, 1>>, Inf }
EtaLists == { <<e>> : e \in Etas }
       \cup { <<e, f>> : e \in {<<1, 2>>, <<10, 1>>}, f \in {<<3, 1>>, Inf} }
       \cup { << <<1, 2>>, <<10, 1>>, Inf >>, << <<100, 1>>, <<5, 2>>, <<1, 1>> >> }
       \* ratios that share their integer part, or differ only after the point
       \cup { << <<1, 2>>, <<3, 4>> >>, << <<1, 1>>, <<3, 2>> >>, << <<2, 1>>, <<5, 2>>, <<3, 1>> >>,
               << <<21, 2>>, <<10, 1>>, <<41, 4>> >> }

Sizes2 == { << <<2>> >>, << <<2, 3>> >>, << <<2>>, <<3>> >>, << <<2, 2>>, <<3, 3>>, <<4, 4>> >>, << <<3, 2>>, <<2, 4>> >>,
            << <<10, 12>> >>, << <<11>>, <<3, 12>> >> }       \* two-digit sides
Sizes3 == { << <<2>> >>, << <<2, 2, 2>>, <<3, 3, 3>> >>, << <<2, 3, 4>> >>, << <<2, 3>>, <<3, 2, 2>> >>,
            << <<2, 10, 2>> >> }

Ranges == { [kind |-> "range", min |-> mn, max |-> mn + span, step |-> st, vals |-> <<>>] :
               mn \in (IF Big THEN {0, 5, 10, 50, 100} ELSE {0, 10, 50}),
               span \in (IF Big THEN {0, 30, 50, 90, 100, 300, 500} ELSE {0, 30, 50, 100, 300}),
               st \in (IF Big THEN {5, 10, 25, 30, 50} ELSE {5, 10, 25, 50}) }
Probs == Ranges
    \cup { [kind |-> "single", min |-> 0, max |-> 0, step |-> 1, vals |-> <<v>>] : v \in {0, 50, 125} }
    \cup { [kind |-> "list", min |-> 0, max |-> 0, step |-> 1, vals |-> vs] :
              vs \in { <<10, 20>>, <<300, 100, 200>>, <<1, 2, 3, 4>>, <<0, 50, 100>>, <<100, 0>> } }

Variants2 == { [dim |-> 2, code |-> "Toric2DCode", decoder |-> d, deformation |-> df, method |-> m] :
                  d \in {"BeliefPropagationOSDDecoder", "MatchingDecoder"}, df \in {"", "XZZX"}, m \in {"direct"} }
Variants3 == { [dim |-> 3, code |-> "Toric3DCode", decoder |-> d, deformation |-> df, method |-> m] :
                  d \in {"BeliefPropagationOSDDecoder", "SweepMatchDecoder"}, df \in {"", "XZZX"}, m \in {"direct"} }
BaseV2 == [dim |-> 2, code |-> "Toric2DCode", decoder |-> "BeliefPropagationOSDDecoder", deformation |-> "", method |-> "direct"]
BaseV3 == [dim |-> 3, code |-> "Toric3DCode", decoder |-> "BeliefPropagationOSDDecoder", deformation |-> "", method |-> "direct"]
BaseP == [kind |-> "list", min |-> 0, max |-> 0, step |-> 1, vals |-> <<10, 20>>]
BaseS2 == << <<2>>, <<3>> >>
BaseE == << <<1, 2>>, <<10, 1>> >>

Mk(s, b, e, p, v, l) == [sizes |-> s, bias |-> b, etas |-> e, prob |-> p, variant |-> v, label |-> l]

Args ==
     \* every probability specification, two eta lists
     { Mk(BaseS2, "Z", e, p, BaseV2, "") : p \in Probs, e \in {BaseE, << <<3, 1>> >>} }
     \* every eta list x every bias axis
\cup { Mk(BaseS2, b, e, BaseP, BaseV2, l) : b \in {"X", "Y", "Z"}, e \in EtaLists, l \in {"", "mylabel"} }
     \* every size list, 2-D and 3-D, every variant
\cup { Mk(s, "Z", BaseE, BaseP, v, "") : s \in Sizes2, v \in Variants2 }
\cup { Mk(s, "X", BaseE, BaseP, v, "") : s \in Sizes3, v \in Variants3 }
     \* splitting method
\cup { Mk(BaseS2, "Z", BaseE, p, [BaseV2 EXCEPT !.method = "splitting"], "") :
          p \in { q \in Probs : q.kind = "list" } }
\cup (IF Big THEN { Mk(s, b, e, p, BaseV2, "") : s \in {BaseS2, << <<2, 3>> >>}, b \in {"X", "Z"},
                       e \in EtaLists, p \in { q \in Ranges : q.min = 0 } }
             ELSE {})

Expected(a) == [rates |-> SetToSortSeq(Rates(a.prob), <),
                dirs |-> [j \in DOMAIN a.etas |-> Direction(a.bias, a.etas[j])],
                full_sizes |-> [j \in DOMAIN a.sizes |-> FullSize(a.sizes[j])]]

ASSUME JsonSerialize(IOEnv.VERIF_OUT, SetToSeq({ [args |-> a, expected |-> Expected(a)] : a \in Args }))

VARIABLE a
Init == a \in Args
Next == UNCHANGED a

DirectionsSumToOne == \A j \in DOMAIN a.etas : SumsToOne(Direction(a.bias, a.etas[j]))
BiasIsLargest == \A j \in DOMAIN a.etas :
    LET e == a.etas[j] IN e[1] >= e[2] =>
        RBias(e)[1] * ROther(e)[2] >= ROther(e)[1] * RBias(e)[2]
RangeInclusive ==
    a.prob.kind = "range" =>
        LET R == Rates(a.prob) IN
        /\ a.prob.min \in R
        /\ \A r \in R : r <= a.prob.max /\ (r - a.prob.min) % a.prob.step = 0
        /\ \A r \in R : (r + a.prob.step <= a.prob.max) => (r + a.prob.step) \in R
        /\ ((a.prob.max - a.prob.min) % a.prob.step = 0 => a.prob.max \in R)
GridSize == Cardinality(Requested(a)) = Len(a.sizes) * Len(a.etas) * Cardinality(Rates(a.prob))
Post == PrintT(<<"CHECKED", TLCGet("distinct")>>)
=============================================================================
