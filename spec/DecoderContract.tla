-------------------------- MODULE DecoderContract --------------------------
(***************************************************************************)
(* What a decoder object owes its callers (C05, C06, C09-validity).        *)
(*                                                                         *)
(* A record of VERIF_DATA is the event log of ONE decoder configuration    *)
(* (decoder class + parameters, code, noise model, error rate):            *)
(*   construct events  [kind |-> "construct", obj, raised]                 *)
(*   interrupted calls [kind |-> "interrupted", obj, syn, syn_intact,      *)
(*                      tables_intact] (decode ended by KeyboardInterrupt) *)
(*   decode events     [kind |-> "decode", obj, syn, corr, len, binary,    *)
(*                      raised, syn_intact, tables_intact]                 *)
(* `obj` names the decoder object (several objects of the same             *)
(* configuration may appear: one reused for the whole history, fresh ones  *)
(* for single calls); `syn` is the set of violated stabilizers handed in,  *)
(* `corr` the operator returned.                                           *)
(*                                                                         *)
(* The log is replayed by a state machine whose only variable besides the  *)
(* position is the history variable                                        *)
(*   memo : syndrome -> correction    (shared by ALL objects)              *)
(* Decode(s, c) is allowed by the contract iff                             *)
(*   - the call returned (no exception), a binary vector of length 2n      *)
(*   - complete decoders: Syndrome(c) = s (on the sectors they decode)     *)
(*   - complete decoders: s = {} => c = identity                           *)
(*   - deterministic decoders: s \in DOMAIN memo => c = memo[s]            *)
(*     (purity: the answer does not depend on the history nor on which     *)
(*      object is asked; equivalently it equals a fresh decoder's answer)  *)
(*   - the caller's syndrome array and the noise model's probability       *)
(*     tables are unchanged by the call                                    *)
(***************************************************************************)
EXTENDS DataDriven, Pauli

VARIABLES tid, l, memo

Evs(t) == Recs[t].events
Ev == Evs(tid)[l]

Init == tid \in 1..NRecs /\ l = 0 /\ memo = <<>>

\* the sectors a decoder is responsible for: "all", or the X-type /
\* Z-type stabilizers only (MatchingDecoder with error_type)
Rows(r) == LET H == AsOps(r.stabs) IN
           CASE r.sector = "all" -> DOMAIN H
             [] r.sector = "X"   -> { j \in DOMAIN H : H[j].x = {} }   \* Z-type checks detect X errors
             [] r.sector = "Z"   -> { j \in DOMAIN H : H[j].z = {} }

SynOf(r, c) == { j \in Rows(r) : Symp(AsOps(r.stabs)[j], c) = 1 }

Key(e) == AsSet(e.syn)

Step ==
  /\ l < Len(Evs(tid))
  /\ l' = l + 1
  /\ LET e == Evs(tid)[l + 1] IN
     memo' = IF e.kind = "decode" /\ e.raised = "" /\ Key(e) \notin DOMAIN memo
             THEN [k \in DOMAIN memo \cup {Key(e)} |-> IF k = Key(e) THEN AsOp(e.corr) ELSE memo[k]]
             ELSE memo
  /\ UNCHANGED tid

Next == Step

\* ---- clauses, evaluated on the event just consumed; memoBefore is what
\* ---- memo held before it (the event itself may just have been added)
FailedEvent(r, e, seenBefore, previous, okBefore, raisedBefore) ==
  IF e.kind = "construct"
  THEN (IF e.raised = "" THEN {} ELSE {"construction_raised"})
       \* building a decoder reads the channel (matching weights, priors): it
       \* must leave the model's tables exactly as they were
       \cup (IF e.raised # "" \/ e.tables_intact THEN {} ELSE {"noise_tables_not_modified"})
  ELSE IF e.kind = "interrupted"
  \* a decode call ended by a KeyboardInterrupt (Ctrl-C during a trial): it returns
  \* nothing, but what it was given stays as it was - and the calls that follow are
  \* judged like any others (purity: the interrupted call is part of the history)
  THEN (IF e.syn_intact THEN {} ELSE {"caller_syndrome_not_modified"})
       \cup (IF e.tables_intact THEN {} ELSE {"noise_tables_not_modified"})
  ELSE
     (IF e.raised = "" THEN {} ELSE {"decode_raised"})
\cup (IF e.raised # "" \/ (e.len = 2 * r.n /\ e.binary) THEN {} ELSE {"binary_vector_of_length_2n"})
\cup (IF e.raised # "" \/ ~r.complete \/
         SynOf(r, AsOp(e.corr)) = { j + 1 : j \in AsSet(e.syn) } \cap Rows(r)
      THEN {} ELSE {"correction_reproduces_syndrome"})
\cup (IF e.raised # "" \/ ~r.complete \/ AsSet(e.syn) # {} \/ AsOp(e.corr) = IdOp
      THEN {} ELSE {"trivial_syndrome_trivial_correction"})
\cup (IF e.raised # "" \/ ~r.deterministic \/ ~seenBefore \/ AsOp(e.corr) = previous
      THEN {} ELSE {"same_syndrome_same_correction_whatever_the_history"})
\cup (IF e.raised # "" \/ e.syn_intact THEN {} ELSE {"caller_syndrome_not_modified"})
\cup (IF e.raised # "" \/ e.tables_intact THEN {} ELSE {"noise_tables_not_modified"})
     \* whether a syndrome can be decoded at all does not depend on the history either
     \* (randomised decoders included: "validity is history-independent")
\cup (IF (e.raised # "" /\ okBefore) \/ (e.raised = "" /\ raisedBefore)
      THEN {"whether_a_syndrome_is_decoded_does_not_depend_on_the_history"} ELSE {})

\* judgement of the event at position l (memo already includes it; it was
\* "seen before" iff an earlier decode event has the same syndrome)
SeenBefore == \E j \in 1..(l - 1) : /\ Evs(tid)[j].kind = "decode" /\ Evs(tid)[j].raised = ""
                                    /\ Key(Evs(tid)[j]) = Key(Ev)
RaisedBefore == \E j \in 1..(l - 1) : /\ Evs(tid)[j].kind = "decode" /\ Evs(tid)[j].raised # ""
                                      /\ Key(Evs(tid)[j]) = Key(Ev)
Judged ==
  l = 0 \/
    LET r == Recs[tid]
        f == FailedEvent(r, Ev, Ev.kind = "decode" /\ SeenBefore,
                         IF Ev.kind = "decode" /\ Key(Ev) \in DOMAIN memo THEN memo[Key(Ev)] ELSE IdOp,
                         Ev.kind = "decode" /\ SeenBefore, Ev.kind = "decode" /\ RaisedBefore)
    IN f = {} \/ PrintT(<<"REJECT", r.id, { c \o "@" \o ToString(l) : c \in f }>>)

Post == PrintT(<<"CHECKED", TLCGet("distinct") - NRecs>>)
=============================================================================
