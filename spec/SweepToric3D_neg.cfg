CONSTANTS LX = 2
 LY = 2
 LZ = 2
 MaxW = 2
 MaxSweeps = 6
 Update = "assign"
INIT Init
NEXT Next
INVARIANT Tracks
