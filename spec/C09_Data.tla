----------------------------- MODULE C09_Data -----------------------------
(***************************************************************************)
(* C09, code -> spec.                                                      *)
(* kind "optimal": one (lattice, noise) with integer weights per qubit for *)
(*   the X-correction sector (Z-type checks) and the Z-correction sector   *)
(*   (X-type checks) and a list of decodes <<syndrome, correction>>.       *)
(*   MinCost is computed by TLC over the FULL coset of solutions by        *)
(*   dynamic programming over qubits:                                      *)
(*     Best_0[s] = 0 if s = {} else Inf                                    *)
(*     Best_q[s] = min(Best_{q-1}[s], Best_{q-1}[s (+) col_q] + W_q)       *)
(*   and the decoder's correction must cost no more than the minimum       *)
(*   (plus the stated rounding slack).                                     *)
(* kind "correctable": all Pauli errors of weight <= t (all supports, all  *)
(*   X/Y/Z assignments) with the decoder's correction; the residual must   *)
(*   be a stabilizer.  The postcondition-style clause domain_covered       *)
(*   compares the errors present with LowWeightErrors(n, t).               *)
(***************************************************************************)
EXTENDS DataDriven, Pauli

VARIABLE i
Init == i = 0
Next == i < NRecs /\ i' = i + 1

Inf == 1000000000
Min2(a, b) == IF a <= b THEN a ELSE b

\* checks: sequence of sets of qubits (0-based); W: sequence of weights (1-based by qubit+1)
RECURSIVE BestUpTo(_, _, _, _)
BestUpTo(checks, W, n, q) ==
    LET Rows == DOMAIN checks IN
    IF q = 0 THEN [s \in SUBSET Rows |-> IF s = {} THEN 0 ELSE Inf]
    ELSE LET B == BestUpTo(checks, W, n, q - 1)
             col == { r \in Rows : (q - 1) \in checks[r] }
         IN [s \in SUBSET Rows |-> Min2(B[s], IF B[SDiff(s, col)] >= Inf THEN Inf ELSE B[SDiff(s, col)] + W[q])]

RECURSIVE CostOf(_, _)
CostOf(S, W) == IF S = {} THEN 0 ELSE LET q == CHOOSE q \in S : TRUE IN W[q + 1] + CostOf(S \ {q}, W)

SynOf(checks, c) == { r \in DOMAIN checks : Cardinality(checks[r] \cap c) % 2 = 1 }

FailedOptimal(r) ==
  LET n == r.n
      CX == [j \in DOMAIN r.zchecks |-> AsSet(r.zchecks[j])]   \* Z-type checks fix the X correction
      CZ == [j \in DOMAIN r.xchecks |-> AsSet(r.xchecks[j])]   \* X-type checks fix the Z correction
      BX == BestUpTo(CX, r.wx, n, n)
      BZ == BestUpTo(CZ, r.wz, n, n)
      slack == r.slack
  IN (IF \A d \in DOMAIN r.decodes :
           LET cx == AsSet(r.decodes[d].cx)  sz == { j + 1 : j \in AsSet(r.decodes[d].sz) } IN
           SynOf(CX, cx) = sz /\ CostOf(cx, r.wx) <= BX[sz] + slack
      THEN {} ELSE {"x_correction_is_minimum_weight_in_its_coset"})
\cup (IF \A d \in DOMAIN r.decodes :
           LET cz == AsSet(r.decodes[d].cz)  sx == { j + 1 : j \in AsSet(r.decodes[d].sx) } IN
           SynOf(CZ, cz) = sx /\ CostOf(cz, r.wz) <= BZ[sx] + slack
      THEN {} ELSE {"z_correction_is_minimum_weight_in_its_coset"})
\cup (IF \A q \in 1..n : r.wx[q] > 0 /\ r.wz[q] > 0 THEN {} ELSE {"weights_positive_for_marginals_below_half"})

\* all Pauli errors of weight <= t on n qubits
LowWeightErrors(n, t) ==
    { e \in UNION { { [x |-> xs, z |-> zs] : xs \in SUBSET S, zs \in SUBSET S } : S \in { T \in SUBSET (0..(n-1)) : Cardinality(T) <= t } } :
        Wt(e) <= t }
\* cheaper enumeration for t <= 2 (what the harness uses)
Letter1(q) == { Single(q, s) : s \in Letters }
LowWeight2(n, t) ==
    {IdOp}
    \cup (IF t >= 1 THEN UNION { Letter1(q) : q \in 0..(n-1) } ELSE {})
    \cup (IF t >= 2 THEN UNION { { Mul(a, b) : a \in Letter1(p), b \in Letter1(q) } :
                                   p \in 0..(n-1), q \in 0..(n-1) } \ {IdOp}
          ELSE {})

FailedCorrectable(r) ==
  LET c == AsCode(r)
      O == r.obs
      errs == { AsOp(O[j].e) : j \in DOMAIN O }
  IN (IF \A j \in DOMAIN O : O[j].raised = "" THEN {} ELSE {"decode_raised"})
\cup (IF \A j \in DOMAIN O : O[j].raised # "" \/
           LET res == Mul(AsOp(O[j].e), AsOp(O[j].c)) IN InCodespace(c, res) /\ Effect(c, res) = NoEffect
      THEN {} ELSE {"error_of_weight_at_most_t_is_corrected"})
\cup (IF \A j \in DOMAIN O : Wt(AsOp(O[j].e)) <= r.t THEN {} ELSE {"error_weight_within_bound"})
\cup (IF ~r.complete \/ errs = { e \in LowWeight2(r.n, r.t) : Wt(e) <= r.t } THEN {} ELSE {"domain_covered"})
\cup (IF 2 * r.t < r.d THEN {} ELSE {"t_below_half_distance"})

Failed(r) == IF r.kind = "optimal" THEN FailedOptimal(r) ELSE FailedCorrectable(r)

Judged == i = 0 \/ Report(Recs[i].id, Failed(Recs[i]))
Post == PrintT(<<"CHECKED", TLCGet("distinct") - 1>>)
=============================================================================
