--------------------------- MODULE DistanceSearch ---------------------------
(***************************************************************************)
(* C17: the reported distance d is the true distance.                      *)
(*                                                                         *)
(*   TrueDistance(c, d) == (some listed logical has weight d)              *)
(*                      /\ \A e : Wt(e) < d /\ Syndrome(c, e) = {}         *)
(*                                   => Effect(c, e) = NoEffect            *)
(* (given C01, a zero-syndrome operator is a stabilizer iff its logical    *)
(* effect is zero).                                                        *)
(*                                                                         *)
(* The universally quantified half is decided by making the search itself  *)
(* a state machine, so that TLC's breadth-first exploration IS the         *)
(* exhaustive search, with a complete pruning rule:                        *)
(*   state  = (code id, partial operator cur)                              *)
(*   Start  : put one Pauli on any qubit                                   *)
(*   Extend : only while cur has a non-zero syndrome and Wt(cur) < d - 1;  *)
(*            only on a fresh qubit in the support of the LOWEST-INDEX     *)
(*            violated stabilizer g, with a letter that anticommutes with  *)
(*            g there.                                                     *)
(* Completeness.  Let E be a minimum-weight non-trivial logical.  No       *)
(* proper non-empty restriction P of E has zero syndrome (else P or E\P    *)
(* would be a lighter non-trivial logical).  So every such P violates some *)
(* stabilizer; let g be the lowest one.  E commutes with g and P does not, *)
(* hence E\P anticommutes with g: some qubit of supp(E)\supp(P) inside     *)
(* supp(g) carries a letter of E anticommuting with g.  That is an Extend  *)
(* step that stays inside E.  By induction E is reached from any of its    *)
(* qubits.  TLC's fingerprint set merges the different orders.             *)
(* CSS codes (every generator purely X-type or purely Z-type): the X part  *)
(* and the Z part of a zero-syndrome operator each have zero syndrome, one *)
(* of them is a non-trivial logical when the operator is, and neither is   *)
(* heavier: the distance is attained by a one-letter operator.  The search *)
(* for such a code therefore uses one letter per run (X or Z, fixed by the *)
(* first step), which makes long thin lattices with d up to 9 affordable.  *)
(* (C17_Brute cross-checks this on tiny CSS codes with all three letters.) *)
(* The lemma is itself model-checked against unpruned enumeration          *)
(* (C17_Brute.tla and the overstated-d self-test of the harness).          *)
(***************************************************************************)
EXTENDS DataDriven, Pauli

Codes == [j \in 1..NRecs |-> AsCode(Recs[j])]

\* stabilizers touching each qubit (constant, computed once per code)
Touch == [j \in 1..NRecs |->
            [q \in 0..(Codes[j].n - 1) |->
                { s \in DOMAIN Codes[j].stabs : q \in Supp(Codes[j].stabs[s]) }]]

VARIABLES c, cur
vars == <<c, cur>>

Violated(j, a) ==
    { s \in UNION { Touch[j][q] : q \in Supp(a) } : Symp(Codes[j].stabs[s], a) = 1 }

MinOf(S) == CHOOSE m \in S : \A t \in S : m <= t

IsCSS == [j \in 1..NRecs |-> \A s \in DOMAIN Codes[j].stabs :
                                Codes[j].stabs[s].x = {} \/ Codes[j].stabs[s].z = {}]
\* letters a step may use: all three, or for a CSS code the letter already in use
LettersFor(j, a) == IF ~IsCSS[j] THEN Letters
                    ELSE IF a = IdOp THEN {"X", "Z"}
                    ELSE IF a.z = {} THEN {"X"} ELSE {"Z"}

Init == c \in 1..NRecs /\ cur = IdOp

Start == /\ cur = IdOp
         /\ Recs[c].d >= 2
         /\ \E q \in 0..(Codes[c].n - 1) : \E s \in LettersFor(c, cur) : cur' = Single(q, s)
         /\ UNCHANGED c

Extend == /\ cur # IdOp
          /\ Wt(cur) < Recs[c].d - 1
          /\ LET V == Violated(c, cur) IN
             /\ V # {}
             /\ LET g == Codes[c].stabs[MinOf(V)] IN
                \E q \in Supp(g) \ Supp(cur) : \E s \in LettersFor(c, cur) :
                    /\ Symp(Single(q, s), g) = 1
                    /\ cur' = Mul(cur, Single(q, s))
          /\ UNCHANGED c

Next == Start \/ Extend

\* every reachable operator is lighter than the claimed distance
Light == Wt(cur) < Recs[c].d \/ cur = IdOp

LightLogical == /\ cur # IdOp
                /\ Violated(c, cur) = {}
                /\ Effect(Codes[c], cur) # NoEffect

NoLightLogical ==
    LightLogical => PrintT(<<"REJECT", Recs[c].id, {"lighter_logical_exists"}>>)

\* the first half of TrueDistance: d is attained by a listed logical
Attained(j) == \E l \in RangeOf(Codes[j].lx) \cup RangeOf(Codes[j].lz) : Wt(l) = Recs[j].d
AttainedInv == cur = IdOp => (Attained(c) \/ PrintT(<<"REJECT", Recs[c].id, {"d_not_attained_by_listed_logical"}>>))

Post == TLCGet("distinct") >= 0 /\ PrintT(<<"CHECKED", NRecs>>)
=============================================================================
