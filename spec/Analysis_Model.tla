--------------------------- MODULE Analysis_Model ---------------------------
(* Enumerates layouts of a fixed pool of trials (two keys, k = 2 and       *)
(* k = 1) over containers of every kind and order, checks that pooling is  *)
(* layout-independent, and writes the layouts to VERIF_OUT for replay      *)
(* through the real Analysis class.                                        *)
EXTENDS Analysis, TLC, Json, IOUtils, FiniteSetsExt, SequencesExt

CONSTANTS MaxContainers, MaxSlots, SampleEvery

\* the pool: key "A" has k = 2 (ee of length 4), key "B" has k = 1
Pool == << [key |-> "A", ee |-> <<0,0,0,0>>, cs |-> TRUE,  ok |-> TRUE],
           [key |-> "A", ee |-> <<1,0,0,1>>, cs |-> TRUE,  ok |-> FALSE],
           [key |-> "A", ee |-> <<1,1,0,0>>, cs |-> FALSE, ok |-> FALSE],
           [key |-> "A", ee |-> <<0,0,0,0>>, cs |-> FALSE, ok |-> FALSE],
           [key |-> "B", ee |-> <<1,1>>,     cs |-> TRUE,  ok |-> FALSE],
           [key |-> "B", ee |-> <<0,0>>,     cs |-> TRUE,  ok |-> TRUE],
           [key |-> "B", ee |-> <<0,1>>,     cs |-> TRUE,  ok |-> FALSE] >>
KOf(key) == IF key = "A" THEN 2 ELSE 1
Keys == {"A", "B"}
Kinds == {"json", "gz", "zip_json", "zip_gz", "merged"}

\* an assignment gives every trial a container and a record slot in it
Assignments == [DOMAIN Pool -> (1..MaxContainers) \X (1..MaxSlots)]
LayoutOf(a, kinds) ==
    [c \in 1..MaxContainers |->
        [kind |-> kinds[c],
         recs |-> LET slots == { <<Pool[t].key, a[t][2]>> : t \in { u \in DOMAIN Pool : a[u][1] = c } }
                  IN [j \in 1..Cardinality(slots) |->
                        LET s == SetToSeq(slots)[j] IN
                        SetToSeq({ t \in DOMAIN Pool : a[t][1] = c /\ Pool[t].key = s[1] /\ a[t][2] = s[2] })]]]

ASSUME PrintT(<<"POOL", ToJson(Pool)>>)

VARIABLES a, kinds
Init == a \in Assignments /\ kinds \in [1..MaxContainers -> Kinds]
Next == UNCHANGED <<a, kinds>>

L == LayoutOf(a, kinds)
Whole(key) == { t \in DOMAIN Pool : Pool[t].key = key }

PartitionInv == IsPartition(L, Pool)
PoolingIsLayoutIndependent ==
    \A key \in Keys : TrialsOf(L, Pool, key) = Whole(key)
SectorBound == \A key \in Keys :
    NFailX(Whole(key), Pool, KOf(key)) <= NTrialsSector(Whole(key), Pool, KOf(key))
\* a pseudo-random sample of the layouts is written out for replay
Emit == SampleEvery = 0 \/ RandomElement(1..SampleEvery) # 1 \/ PrintT(<<"LAYOUT", ToJson(L)>>)
=============================================================================
