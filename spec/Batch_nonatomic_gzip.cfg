CONSTANTS
  Sims = {"s1", "s2"}
  SimOrder <- Order2
  Foreign = "f"
  MaxTarget = 3
  SaveFreqs = {1, 2}
  Compressed = TRUE
  AtomicSave = FALSE
  MaxRuns = 3
  MaxKills = 2
  MaxInterrupts = 1
  RepairPartial = TRUE
  TailSave = TRUE
  Planned = FALSE
INIT Init
NEXT Next
VIEW view
INVARIANT TypeOK
INVARIANT Completes
INVARIANT ExactCounts
INVARIANT NoDup
INVARIANT NoForeign
INVARIANT LoadAdoptsLastGood
INVARIANT DiskConsistent
PROPERTY PrefixKept
