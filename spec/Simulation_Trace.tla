-------------------------- MODULE Simulation_Trace --------------------------
(***************************************************************************)
(* C11, code -> spec.  Record kinds:                                       *)
(*  "sim":  the log of one DirectSimulation object: events                 *)
(*      [ev |-> "run", requested, interrupted (an exception ended the    *)
(*       call early), trials |-> <<shots completed>>, lens |-> <<Len(ee), Len(succ), *)
(*        Len(cs), n_runs>>]   after each run(k) call, and                 *)
(*      [ev |-> "results", n_fail, n_runs, n_success, p_est_k, p_se2n1_k]  *)
(*      after each get_results() (p_est and p_se^2 (n+1) as integers / G)  *)
(*    replayed through Simulation!Run; every shot is judged with           *)
(*    FailedTrial and every call boundary with ListsAligned.               *)
(*  "same": two logs that must be identical (same seed in two fresh        *)
(*    processes; same seed with different run(k) chunking)                 *)
(*  "calibration": failure table succ[t] for ALL 4^n errors (base-4        *)
(*    numerals) + n_fail / n_runs observed when the real simulation is     *)
(*    driven by the stratified variate grid; the exact failure probability *)
(*    is summed from Noise!PNum.                                           *)
(***************************************************************************)
EXTENDS DataDriven, Noise, TLC

VARIABLES tid, l, nruns, ee, succ, cs
S == INSTANCE Simulation

Evs(t) == Recs[t].events
Code(t) == AsCode(Recs[t].code)

AsTrial(j) == [error |-> AsOp(j.error), correction |-> AsOp(j.correction),
               syndrome |-> { x + 1 : x \in AsSet(j.syndrome) },
               effective |-> AsSet(j.effective), codespace |-> j.codespace, success |-> j.success]

Init == tid \in 1..NRecs /\ l = 0 /\ S!Init

StepRun == /\ Recs[tid].kind = "sim" /\ l < Len(Evs(tid))
           /\ Evs(tid)[l + 1].ev = "run"
           /\ S!Run([j \in DOMAIN Evs(tid)[l + 1].trials |-> AsTrial(Evs(tid)[l + 1].trials[j])])
           /\ l' = l + 1 /\ UNCHANGED tid
StepResults == /\ Recs[tid].kind = "sim" /\ l < Len(Evs(tid))
               /\ Evs(tid)[l + 1].ev = "results"
               /\ l' = l + 1 /\ UNCHANGED <<tid, nruns, ee, succ, cs>>
Next == StepRun \/ StepResults

G == 1000000
Abs(x) == IF x < 0 THEN 0 - x ELSE x

FailedSimEvent(r) ==
  IF l = 0 THEN {} ELSE
  LET e == Evs(tid)[l] IN
  IF e.ev = "run" THEN
       UNION { S!FailedTrial(Code(tid), AsTrial(e.trials[j])) : j \in DOMAIN e.trials }
  \cup (IF e.lens = <<nruns, nruns, nruns, nruns>> THEN {} ELSE {"result_lists_all_have_length_n_runs"})
  \cup (IF (IF e.interrupted THEN Len(e.trials) < e.requested ELSE e.requested = Len(e.trials))
        THEN {} ELSE {"run_k_performs_k_trials"})
  ELSE
       (IF e.n_runs = nruns /\ e.n_fail = S!NFail /\ e.n_success = nruns - S!NFail
        THEN {} ELSE {"n_fail_counts_the_failures"})
  \cup (IF nruns = 0 \/ Close(e.p_est_k, G, S!NFail, nruns, 2) THEN {} ELSE {"estimator_is_n_fail_over_n_runs"})
  \cup (IF nruns = 0 \/ Close(e.p_se2n1_k, G, S!NFail * (nruns - S!NFail), nruns * nruns, 2)
        THEN {} ELSE {"standard_error_is_sqrt_p_1_minus_p_over_n_plus_1"})

FailedCalibration(r) ==
  LET n == r.n
      base == [I |-> r.chan[1], X |-> r.chan[2], Y |-> r.chan[3], Z |-> r.chan[4]]
      perm(q) == [X |-> r.D[q][1], Y |-> r.D[q][2], Z |-> r.D[q][3]]
      ch == [q \in 1..n |-> Deformed(base, perm(q))]
      N == Pow(4, n)
      Digit(t, q) == (t \div Pow(4, q)) % 4
      Letters(t) == [q \in 1..n |-> Paulis[Digit(t, q - 1) + 1]]
      \* exact failure probability, as a numerator over Den^n = number of
      \* stratified trials
      Expected == LET RECURSIVE Acc(_)
                      Acc(t) == IF t < 0 THEN 0
                                ELSE (IF r.succ[t + 1] = 1 THEN 0 ELSE PNum(Letters(t), ch)) + Acc(t - 1)
                  IN Acc(N - 1)
  IN (IF r.n_runs = Pow(Den, n) THEN {} ELSE {"stratified_grid_complete"})
\cup (IF r.n_fail = Expected THEN {} ELSE {"failure_frequency_equals_exact_failure_probability"})

Failed(r) == CASE r.kind = "sim" -> FailedSimEvent(r)
               [] r.kind = "same" -> IF l > 0 \/ r.a = r.b THEN {} ELSE {"same_seed_same_run"}
               [] r.kind = "calibration" -> IF l > 0 THEN {} ELSE FailedCalibration(r)

Judged == LET r == Recs[tid]
              f == Failed(r)
          IN f = {} \/ PrintT(<<"REJECT", r.id, { c \o "@" \o ToString(l) : c \in f }>>)
Aligned == Recs[tid].kind = "sim" => S!ListsAligned
Post == PrintT(<<"CHECKED", TLCGet("distinct")>>)
=============================================================================
