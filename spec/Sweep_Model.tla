----------------------------- MODULE Sweep_Model -----------------------------
(* Bounded exploration of the automaton on a small exported lattice        *)
(* (VERIF_DATA holds one code): every single-edge Z error, every sequence  *)
(* of up to Depth sweeps each flipping one or two edges.  With Update =    *)
(* "toggle" Tracks is invariant; with "assign" TLC finds the double flip.  *)
EXTENDS DataDriven, Sweep

CONSTANT Depth

Stabs == AsOps(Recs[1].stabs)
Edges == 0..(Recs[1].n - 1)
Faces == { j + 1 : j \in AsSet(Recs[1].faces) }

VARIABLES err, signs, corr, k
Init == /\ err \in { {e} : e \in Edges } \cup {{}}
        /\ corr = {} /\ k = 0
        /\ signs = FaceSyndrome(Stabs, Faces, err)
SweepMove(F) == /\ k < Depth
                /\ signs' = NewSigns(Stabs, Faces, signs, F)
                /\ corr' = NewCorr(corr, F)
                /\ k' = k + 1 /\ UNCHANGED err
Next == \E e \in Edges : \E f \in { g \in Edges : g >= e /\ g <= e + 1 } : SweepMove({e, f})
TracksInv == Tracks(Stabs, Faces, err, signs, corr)
CleanExitInv == CleanExit(Stabs, Faces, err, signs, corr)
=============================================================================
