CONSTANTS MaxI = 6
 MaxN = 4
 MaxC = 8
 MaxT = 64
 Variant = "remainder"
INIT Init
NEXT Next
INVARIANT Total
INVARIANT Positive
INVARIANT Served
