---------------------------- MODULE DataDriven ----------------------------
(***************************************************************************)
(* Plumbing shared by every data-driven / trace-validation module.         *)
(* The harness writes a JSON array of observation records to the file      *)
(* named by the environment variable VERIF_DATA.  A module that EXTENDS    *)
(* this one defines Failed(rec) (the set of names of the property clauses  *)
(* the record violates), and uses the state machine below, which visits    *)
(* the records one per state; the invariant Judged evaluates Failed on the *)
(* record of the current state and reports every rejected record with the  *)
(* names of the clauses it fails.  The POSTCONDITION reports how many      *)
(* records were judged, so that a harness silently dropping records is     *)
(* detected by the runner.                                                  *)
(***************************************************************************)
EXTENDS Naturals, Sequences, TLC, TLCExt, Json, IOUtils

Recs == JsonDeserialize(IOEnv.VERIF_DATA)
NRecs == Len(Recs)

\* JSON arrays arrive as sequences; most fields denote sets.
AsSet(s) == { s[j] : j \in DOMAIN s }

\* {"x": [...], "z": [...]}  ->  Pauli!Op
AsOp(j) == [x |-> AsSet(j.x), z |-> AsSet(j.z)]
AsOps(s) == [j \in DOMAIN s |-> AsOp(s[j])]

\* code export -> the code record of Pauli.tla
AsCode(r) == [n |-> r.n, k |-> r.k,
              stabs |-> AsOps(r.stabs), lx |-> AsOps(r.lx), lz |-> AsOps(r.lz)]

Report(id, failed) == failed = {} \/ PrintT(<<"REJECT", id, failed>>)
=============================================================================
