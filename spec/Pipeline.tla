------------------------------ MODULE Pipeline ------------------------------
(***************************************************************************)
(* End-to-end model of a data directory processed by `panqec run-parallel`*)
(* and read back by `panqec.analysis.Analysis`:                            *)
(*                                                                         *)
(*   inputs/*.json  --run-parallel (N nodes x C cores)-->  results_k.json.gz*)
(*                  --Analysis(results/)-->  n_trials per simulation       *)
(*                                                                         *)
(* Jobs are launched directly or through a generated cluster script.      *)
(* It composes Parallel.tla (task arithmetic, C14) with the resume rule of *)
(* BatchSimulation (Batch.tla, C12: a task that finds its results file     *)
(* continues from the saved count and never discards trials) and the       *)
(* pooling rule of Analysis.tla (C15: n_trials of a simulation is the sum  *)
(* over all result files).  Jobs may run in any order, may be run again    *)
(* (with or without --delete-existing), one task of a job may stop early   *)
(* (a valid file with fewer trials, which is all an interrupted or killed  *)
(* task can leave behind - C12), and the request may later be extended to  *)
(* a larger number of trials.                                              *)
(*                                                                         *)
(* An input file may be EXTENDED between runs (a further error rate is      *)
(* appended: C12's "specifications that grow").  The simulations an input  *)
(* had from the start advance in lock step, so a result file is described  *)
(* by two numbers: files[t].a trials of each original simulation (Absent = *)
(* no file), files[t].b trials of the added simulation (Absent = the file  *)
(* has no record of it).                                                   *)
(***************************************************************************)
EXTENDS Naturals, Integers, FiniteSets, Sequences, TLC, Json

CONSTANTS MaxI, MaxN, MaxC, MaxT, MaxSteps,
          MinN, MinC    \* lower bounds (1 everywhere except in the wide simulation)

Variant == "remainder"
VARIABLES cfg,      \* [I, N, C]: inputs, nodes, cores per node (fixed per behaviour)
          T,        \* trials currently requested per input
          files,    \* task -> [a, b]: trials stored in its result file (see above)
          grown,    \* inputs to which a simulation has been added
          top,      \* task -> the largest share of trials it has ever been asked for
          extended, \* the request has been raised after some task had run
          progress, \* task -> <<done, of>> in its progress log (what `panqec check-progress`
                    \* adds up), NoLog if the task never ran a trial.  An observation
                    \* variable: not part of the VIEW, not mentioned by the invariants
          steps, hist
vars == <<cfg, T, files, grown, top, extended, progress, steps, hist>>

Absent == -1
Cur == [I |-> cfg.I, N |-> cfg.N, C |-> cfg.C, T |-> T]

\* ---- the task arithmetic of run-parallel (same text as Parallel.tla) ----
NTasks(c) == c.N * c.C
Base(c) == NTasks(c) \div c.I
InputOf(c, t) == LET i == t \div Base(c) IN IF i >= c.I THEN c.I - 1 ELSE i
IsLastInput(c, t) == InputOf(c, t) = c.I - 1
TPI(c, t) == IF IsLastInput(c, t) THEN Base(c) + (NTasks(c) % c.I) ELSE Base(c)
TaskInInput(c, t) == IF IsLastInput(c, t) THEN t - Base(c) * (c.I - 1) ELSE t % TPI(c, t)
Runs(c, t) == LET q == c.T \div TPI(c, t) IN
              IF TaskInInput(c, t) = TPI(c, t) - 1 THEN q + (c.T % TPI(c, t)) ELSE q
MaxTPI(c) == Base(c) + (NTasks(c) % c.I)
Pre(c) == c.I >= 1 /\ NTasks(c) >= c.I /\ c.T >= MaxTPI(c)

Tasks == 0..(NTasks(Cur) - 1)
TasksOf(j) == { t \in Tasks : t \div cfg.C = j - 1 }
NoFile == [a |-> Absent, b |-> Absent]
NoLog == <<Absent, Absent>>
Val(x) == IF x = Absent THEN 0 ELSE x
Stored(t) == Val(files[t].a)
StoredB(t) == Val(files[t].b)
Max(a, b) == IF a > b THEN a ELSE b
Grown(t) == InputOf(Cur, t) \in grown

SumOver(S, g(_)) == LET RECURSIVE Sum(_)
                        Sum(R) == IF R = {} THEN 0
                                  ELSE LET x == CHOOSE y \in R : TRUE IN g(x) + Sum(R \ {x})
                    IN Sum(S)
TasksOfInput(i) == { t \in Tasks : InputOf(Cur, t) = i }
Total(i) == SumOver(TasksOfInput(i), Stored)
TotalB(i) == SumOver(TasksOfInput(i), StoredB)

Init ==
  /\ cfg \in [I : 1..MaxI, N : MinN..MaxN, C : MinC..MaxC]
  /\ T \in 1..MaxT
  /\ Pre([I |-> cfg.I, N |-> cfg.N, C |-> cfg.C, T |-> T])
  /\ files = [t \in 0..(cfg.N * cfg.C - 1) |-> NoFile]
  /\ grown = {}
  /\ top = [t \in 0..(cfg.N * cfg.C - 1) |->
              Runs([I |-> cfg.I, N |-> cfg.N, C |-> cfg.C, T |-> T], t)]
  /\ extended = FALSE
  /\ progress = [t \in 0..(cfg.N * cfg.C - 1) |-> NoLog]
  /\ steps = 0
  /\ hist = <<[a |-> "init", trials |-> T]>>

Obs(f) == [files |-> [t \in Tasks |-> f[t].a], filesb |-> [t \in Tasks |-> f[t].b],
           totals |-> [i \in 0..(cfg.I - 1) |->
                         LET g(x) == Val(f[x].a) IN SumOver(TasksOfInput(i), g)],
           totalsb |-> [i \in 0..(cfg.I - 1) |->
                         LET g(x) == Val(f[x].b) IN SumOver(TasksOfInput(i), g)]]

\* what one task leaves in its file when it runs up to `r` trials: every
\* simulation of its input that has fewer is brought up to r, none is reduced
\* (with --delete-existing the file is started afresh)
UpTo(t, r, del) ==
  [a |-> IF del THEN r ELSE Max(Stored(t), r),
   b |-> IF ~Grown(t) THEN (IF del THEN Absent ELSE files[t].b)
         ELSE IF del THEN r ELSE Max(StoredB(t), r)]
After(t, del) == UpTo(t, Runs(Cur, t), del)
\* the progress log is rewritten after every trial of the loop ("i+1/target"); a task
\* that finds nothing left to do does not touch it
Behind(t, del) == IF del THEN 0
                  ELSE IF Grown(t) THEN (IF Stored(t) < StoredB(t) THEN Stored(t) ELSE StoredB(t))
                  ELSE Stored(t)
LogAfter(t, r, del) == IF Behind(t, del) < r THEN <<r, r>> ELSE progress[t]

\* How a job is launched: by calling `panqec run-parallel` directly, or by
\* the script that `panqec generate-cluster-script` writes for a scheduler
\* (the script holds the run-parallel command with N, C, the current request
\* and the scheduler's array-index variable in the place of the job index).
\* The launching path has no effect of its own on the data directory.
Launchers == {"direct", "sge", "slurm", "pbs"}

\* job j of N runs all its C tasks to completion
RunJob(j, del, via) ==
  /\ steps < MaxSteps
  /\ LET f == [t \in Tasks |-> IF t \in TasksOf(j) THEN After(t, del) ELSE files[t]] IN
     /\ files' = f
     /\ hist' = Append(hist, [a |-> "job", job |-> j, delete |-> del, trials |-> T,
                              via |-> via, expect |-> Obs(f)])
  /\ progress' = [t \in Tasks |-> IF t \in TasksOf(j) THEN LogAfter(t, Runs(Cur, t), del) ELSE progress[t]]
  /\ steps' = steps + 1
  /\ UNCHANGED <<cfg, T, extended, grown, top>>

\* job j runs, but its task t0 stops early with m trials in its file
PartialJob(j, t0, m) ==
  /\ steps < MaxSteps
  /\ t0 \in TasksOf(j)
  /\ m < Runs(Cur, t0) /\ m >= Stored(t0)
  /\ LET f == [t \in Tasks |-> IF t = t0 THEN UpTo(t, m, FALSE)
                               ELSE IF t \in TasksOf(j) THEN After(t, FALSE) ELSE files[t]] IN
     /\ files' = f
     /\ hist' = Append(hist, [a |-> "partial", job |-> j, task |-> t0, stop |-> m,
                              trials |-> T, expect |-> Obs(f)])
  /\ progress' = [t \in Tasks |-> IF t = t0 THEN LogAfter(t, m, FALSE)
                                  ELSE IF t \in TasksOf(j) THEN LogAfter(t, Runs(Cur, t), FALSE)
                                  ELSE progress[t]]
  /\ steps' = steps + 1
  /\ UNCHANGED <<cfg, T, extended, grown, top>>

\* a simulation (a further error rate) is appended to input file i
Grow(i) ==
  /\ steps < MaxSteps
  /\ i \in 0..(cfg.I - 1) /\ i \notin grown
  /\ grown' = grown \cup {i}
  /\ hist' = Append(hist, [a |-> "grow", input |-> i, trials |-> T])
  /\ steps' = steps + 1
  /\ UNCHANGED <<cfg, T, files, extended, top, progress>>

\* the user asks for more trials and runs the directory again
Extend(T2) ==
  /\ steps < MaxSteps
  /\ T2 > T
  /\ T' = T2
  /\ extended' = (extended \/ \E t \in Tasks : files[t].a # Absent)
  /\ top' = [t \in Tasks |-> Max(top[t], Runs([I |-> cfg.I, N |-> cfg.N, C |-> cfg.C, T |-> T2], t))]
  /\ hist' = Append(hist, [a |-> "extend", trials |-> T2])
  /\ steps' = steps + 1
  /\ UNCHANGED <<cfg, files, grown, progress>>

Next == \/ \E j \in 1..cfg.N, del \in BOOLEAN, via \in Launchers : RunJob(j, del, via)
        \/ \E j \in 1..cfg.N : \E t0 \in TasksOf(j), m \in 0..MaxT : PartialJob(j, t0, m)
        \/ \E T2 \in 1..MaxT : Extend(T2)
        \/ \E i \in 0..(cfg.I - 1) : Grow(i)
Spec == Init /\ [][Next]_vars

\* ------------------------------------------------------------ properties
TypeOK == /\ files \in [Tasks -> [a : -1..MaxT, b : -1..MaxT]] /\ T \in 1..MaxT
          /\ extended \in BOOLEAN /\ grown \subseteq 0..(cfg.I - 1)
AllComplete == \A t \in Tasks : /\ Stored(t) >= Runs(Cur, t)
                                /\ Grown(t) => StoredB(t) >= Runs(Cur, t)
\* C14 end to end: once every task has completed, the analysis sees exactly T
\* for every simulation of every input
Conservation == (AllComplete /\ ~extended) =>
                   \A i \in 0..(cfg.I - 1) : Total(i) = T /\ (i \in grown => TotalB(i) = T)
\* never more than requested, at any moment (no trial is run twice)
NeverTooMany == ~extended => \A i \in 0..(cfg.I - 1) : Total(i) <= T /\ TotalB(i) <= T
\* whatever the history of requests and extensions: no simulation of a task
\* ever holds more trials than the largest share the task was asked for
NoTaskBeyondItsLargestShare == \A t \in Tasks : Stored(t) <= top[t] /\ StoredB(t) <= top[t]
\* a task never loses trials unless the user deletes
Monotone == [][\A t \in Tasks : (files'[t].a < files[t].a \/ files'[t].b < files[t].b) =>
                 (Len(hist') > Len(hist) /\ hist'[Len(hist')].a = "job" /\ hist'[Len(hist')].delete)]_vars
\* every task has a file of its own after its job completed (by construction
\* of `files`; on the implementation side the file names are compared)
\* NEGATIVE CONTROL, refuted by TLC: after an extension the totals need not be
\* the new request (the task that held a remainder keeps it: 3 tasks, T=5 -> 6
\* leaves 2+2+3 = 7).  Outside C14's statement; reported as a note.
ExtensionKeepsTotal == AllComplete => \A i \in 0..(cfg.I - 1) : Total(i) = T

View == <<cfg, T, files, grown, top, extended>>
AtMostOneExtend == Cardinality({ k \in DOMAIN hist : hist[k].a = "extend" }) <= 1
Finished == steps = MaxSteps
Emit == ~Finished \/ PrintT(<<"BEHAVIOUR", ToJson([cfg |-> cfg, steps |-> hist])>>)
=============================================================================
