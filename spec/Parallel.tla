------------------------------ MODULE Parallel ------------------------------
(***************************************************************************)
(* `panqec run-parallel`: how N nodes x C cores split T requested trials   *)
(* over I input files (cli.run_parallel).  Property C14:                   *)
(*   for every input the trials of all its tasks sum to T, every task gets *)
(*   >= 1 trial and its own result file, and no configuration with         *)
(*   N*C >= I (and T >= tasks per input) raises.                           *)
(* Assign is the transcription of the arithmetic in the code; Variant      *)
(* selects the remainder rule: "as_snapshot" is what the pinned snapshot   *)
(* did (n_runs += trials mod n_runs), "remainder" adds trials mod tasks-per- *)
(* input.  TLC refutes the first and proves the second on the whole grid.  *)
(***************************************************************************)
EXTENDS Naturals, FiniteSets, TLC

CONSTANTS MaxI, MaxN, MaxC, MaxT, Variant

NTasks(c) == c.N * c.C
Base(c) == NTasks(c) \div c.I
InputOf(c, t) == LET i == t \div Base(c) IN IF i >= c.I THEN c.I - 1 ELSE i
IsLastInput(c, t) == InputOf(c, t) = c.I - 1
TPI(c, t) == IF IsLastInput(c, t) THEN Base(c) + (NTasks(c) % c.I) ELSE Base(c)
TaskInInput(c, t) == IF IsLastInput(c, t) THEN t - Base(c) * (c.I - 1) ELSE t % TPI(c, t)
Runs(c, t) ==
    LET q == c.T \div TPI(c, t) IN
    IF TaskInInput(c, t) = TPI(c, t) - 1
    THEN q + (IF Variant = "as_snapshot" THEN (c.T % q) ELSE (c.T % TPI(c, t)))
    ELSE q
\* result file number of task t (results_<t+1>.json.gz)
FileOf(c, t) == t + 1

MaxTPI(c) == Base(c) + (NTasks(c) % c.I)
Pre(c) == c.I >= 1 /\ NTasks(c) >= c.I /\ c.T >= MaxTPI(c)

RECURSIVE SumRuns(_, _, _)
SumRuns(c, i, t) == IF t < 0 THEN 0
                    ELSE (IF InputOf(c, t) = i THEN Runs(c, t) ELSE 0) + SumRuns(c, i, t - 1)

TotalPerInput(c) == \A i \in 0..(c.I - 1) : SumRuns(c, i, NTasks(c) - 1) = c.T
AtLeastOne(c) == \A t \in 0..(NTasks(c) - 1) : Runs(c, t) >= 1
EveryInputServed(c) == \A i \in 0..(c.I - 1) : \E t \in 0..(NTasks(c) - 1) : InputOf(c, t) = i

VARIABLE cfg
Init == cfg \in { c \in [I : 1..MaxI, N : 1..MaxN, C : 1..MaxC, T : 1..MaxT] : Pre(c) }
Next == UNCHANGED cfg

Total == TotalPerInput(cfg)
Positive == AtLeastOne(cfg)
Served == EveryInputServed(cfg)
=============================================================================
