CONSTANTS NQ = 3
          NS = 2
INIT Init
NEXT Next
INVARIANT DictBsfBijection
INVARIANT Sectors
INVARIANT Blocks
POSTCONDITION Post
