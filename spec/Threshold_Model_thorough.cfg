CONSTANT Big = TRUE
INIT Init
NEXT Next
INVARIANT Conditioned
INVARIANT Monotone
INVARIANT CrossAtThreshold
INVARIANT SuccessIffPlausible
POSTCONDITION Post
