------------------------------ MODULE PauliMC ------------------------------
(***************************************************************************)
(* Design-level model of the Pauli algebra (C03, C04): TLC checks, for ALL *)
(* operators on N qubits, that Symp is bilinear, symmetric and alternating,*)
(* that the encodings are mutually inverse, and on a few hard-wired codes  *)
(* that membership in the stabilizer group (closure) coincides with "zero  *)
(* syndrome and zero logical effect" and with the rank test, and that the  *)
(* logical effect is linear and constant on stabilizer cosets.             *)
(***************************************************************************)
EXTENDS Pauli, TLC

CONSTANT N

VARIABLES a, b
Init == a \in AllOps(N) /\ b \in AllOps(N)
Next == UNCHANGED <<a, b>>

Symmetric == Symp(a, b) = Symp(b, a)
Alternating == Symp(a, a) = 0
Bilinear == \A c \in AllOps(N) : Symp(Mul(a, b), c) = (Symp(a, c) + Symp(b, c)) % 2
ColsInverse == FromCols(Cols(a, N), N) = a
MulInvolution == Mul(Mul(a, b), b) = a /\ Mul(a, b) = Mul(b, a)
WtSubadditive == Wt(Mul(a, b)) <= Wt(a) + Wt(b)

\* hard-wired tiny codes
Z(S) == Op({}, S)
X(S) == Op(S, {})
Code422 == [n |-> 4, k |-> 2,
            stabs |-> << X({0,1,2,3}), Z({0,1,2,3}) >>,
            lx |-> << X({0,1}), X({0,2}) >>,
            lz |-> << Z({0,2}), Z({0,1}) >>]
\* the five-qubit code (non-CSS): XZZXI and cyclic shifts
Code513 == [n |-> 5, k |-> 1,
            stabs |-> << Op({0,3},{1,2}), Op({1,4},{2,3}), Op({0,2},{3,4}), Op({1,3},{0,4}) >>,
            lx |-> << X({0,1,2,3,4}) >>,
            lz |-> << Z({0,1,2,3,4}) >>]
Rep3 == [n |-> 3, k |-> 1,
         stabs |-> << Z({0,1}), Z({1,2}) >>,
         lx |-> << X({0,1,2}) >>, lz |-> << Z({0}) >>]
TheCodes == {Code422, Code513, Rep3}

ASSUME \A c \in TheCodes : ValidCode(c)

\* C04 theorem, for every operator of every hard-wired code
ASSUME \A c \in TheCodes :
         LET G == StabGroup(c) IN
         \A e \in AllOps(c.n) :
            /\ (e \in G) = (InCodespace(c, e) /\ Effect(c, e) = NoEffect)
            /\ (e \in G) = IsStabilizer(c, e)
            /\ (e \in G) = InSpanOf(Cols(e, c.n), Echelon(StabRows(c)))

\* linearity and coset constancy of the logical effect
ASSUME \A c \in {Code422, Rep3} :
         \A e \in AllOps(c.n) : \A f \in AllOps(c.n) :
            /\ EffectX(c, Mul(e, f)) = SDiff(EffectX(c, e), EffectX(c, f))
            /\ EffectZ(c, Mul(e, f)) = SDiff(EffectZ(c, e), EffectZ(c, f))
ASSUME \A c \in TheCodes :
         \A e \in AllOps(c.n) : \A g \in RangeOf(c.stabs) :
            Effect(c, Mul(e, g)) = Effect(c, e) /\ Syndrome(c, Mul(e, g)) = Syndrome(c, e)

\* relabellings preserve the symplectic form (C08 theorem, here for N qubits)
Perms == { f \in [Letters -> Letters] : IsPerm(f) }
ASSUME \A D \in [0..1 -> Perms] : \A e \in AllOps(2) : \A f \in AllOps(2) :
          Symp(ApplyD(D, e), ApplyD(D, f)) = Symp(e, f)
=============================================================================
