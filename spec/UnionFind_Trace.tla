-------------------------- MODULE UnionFind_Trace --------------------------
(***************************************************************************)
(* The union-find decoder's clustering stage (decoders/union_find/         *)
(* uf_support.py) - beyond the listed properties: the invariants that make *)
(* its corrections valid (C05) and its failures local.                     *)
(*                                                                         *)
(* One record = one Support.decode() on one sector of a toric code:        *)
(*   m checks, defects (the syndrome), checks_of_qubit (the graph), and    *)
(*   snaps = the cluster forest each time the algorithm chooses what to    *)
(*   grow next (observed from outside at _smallest_invalid_cluster):       *)
(*     [clusters |-> <<[root, odd, size, members]>>, chosen |-> root | -1] *)
(*   and finally the correction.                                           *)
(* The trace is replayed snapshot by snapshot (variable l); every snapshot *)
(* and every step between consecutive snapshots is judged.                 *)
(***************************************************************************)
EXTENDS DataDriven, FiniteSets, Integers

VARIABLES tid, l
Init == tid \in 1..NRecs /\ l = 1
Next == l < Len(Recs[tid].snaps) /\ l' = l + 1 /\ UNCHANGED tid

Snap(t, j) == Recs[t].snaps[j]
Cl(t, j) == Snap(t, j).clusters
Members(c) == AsSet(c.members)
Defects(t) == AsSet(Recs[t].defects)

FailedSnapshot(t, j) ==
  LET C == Cl(t, j)  D == Defects(t)
      odd == { i \in DOMAIN C : C[i].odd }
      last == j = Len(Recs[t].snaps)
  IN \* a cluster is odd iff it holds an odd number of defects
     (IF \A i \in DOMAIN C : C[i].odd = (Cardinality(Members(C[i]) \cap D) % 2 = 1)
      THEN {} ELSE {"cluster_parity_is_parity_of_its_defects"})
\cup (IF \A a \in DOMAIN C : \A b \in DOMAIN C : a # b => Members(C[a]) \cap Members(C[b]) = {}
      THEN {} ELSE {"clusters_are_disjoint"})
\cup (IF D \subseteq UNION { Members(C[i]) : i \in DOMAIN C } THEN {} ELSE {"every_defect_is_in_a_cluster"})
\cup (IF \A i \in DOMAIN C : C[i].root \in Members(C[i]) THEN {} ELSE {"root_belongs_to_its_cluster"})
     \* what is grown next is a smallest odd cluster; nothing is grown iff none is odd
\cup (IF (odd = {}) = (Snap(t, j).chosen = -1) THEN {} ELSE {"stops_exactly_when_no_odd_cluster_is_left"})
\cup (IF odd = {} \/ \E i \in odd : /\ C[i].root = Snap(t, j).chosen
                                    /\ \A k \in odd : C[i].size <= C[k].size
      THEN {} ELSE {"grows_a_smallest_odd_cluster"})
\cup (IF ~last \/ odd = {} THEN {} ELSE {"terminates_with_all_clusters_even"})
     \* the correction is valid cluster by cluster
\cup (IF ~last \/ Recs[t].raised # "" \/
         \A i \in DOMAIN C :
            LET inside == { q \in AsSet(Recs[t].correction) :
                              AsSet(Recs[t].checks_of_qubit[q + 1]) \subseteq Members(C[i]) }
                syn == { s \in Members(C[i]) :
                           Cardinality({ q \in inside : s \in AsSet(Recs[t].checks_of_qubit[q + 1]) }) % 2 = 1 }
            IN syn = Members(C[i]) \cap D
      THEN {} ELSE {"correction_reproduces_the_defects_inside_each_cluster"})
\cup (IF ~last \/ Recs[t].raised = "" THEN {} ELSE {"decode_raised"})
     \* when clustering is over the forest is flattened: every vertex that was
     \* touched points directly at the root of its cluster
\cup (IF ~last \/ \A f \in DOMAIN Recs[t].flat :
            \A v \in DOMAIN Recs[t].flat[f].parents :
               Recs[t].flat[f].parents[v] = -1 \/ Recs[t].flat[f].parents[v] \in AsSet(Recs[t].flat[f].roots)
      THEN {} ELSE {"after_flattening_every_vertex_points_at_a_root"})

FailedStep(t, j) ==   \* from snapshot j - 1 to snapshot j: clusters only grow and merge
  IF j = 1 THEN
     (IF \A i \in DOMAIN Cl(t, 1) : Members(Cl(t, 1)[i]) = {Cl(t, 1)[i].root} /\ Cl(t, 1)[i].odd
      THEN {} ELSE {"starts_with_one_singleton_cluster_per_defect"})
  ELSE
     (IF \A a \in DOMAIN Cl(t, j - 1) : \E b \in DOMAIN Cl(t, j) : Members(Cl(t, j - 1)[a]) \subseteq Members(Cl(t, j)[b])
      THEN {} ELSE {"clusters_only_grow_and_merge"})

Judged == LET f == FailedSnapshot(tid, l) \cup FailedStep(tid, l) IN
          f = {} \/ PrintT(<<"REJECT", Recs[tid].id, { c \o "@" \o ToString(l) : c \in f }>>)
Post == PrintT(<<"CHECKED", TLCGet("distinct")>>)
=============================================================================
