----------------------------- MODULE C04_Data -----------------------------
(***************************************************************************)
(* C04, code -> spec: the library's verdicts on residual errors            *)
(* (in_codespace, logical_errors, is_logical_error, is_success and the     *)
(* expression inside run_once) against the specification:                  *)
(*     success(e)  <=>  e \in StabGroup(c)                                 *)
(* Mode "all": the record carries the verdicts for ALL 4^n operators, as   *)
(* arrays indexed by the base-4 numeral of the operator (digit q: 0=I,     *)
(* 1=X, 2=Y, 3=Z on qubit q); the group is built as a closure, with no     *)
(* rank argument.  Mode "some": explicit operators on larger codes; group  *)
(* membership by Gaussian elimination.                                     *)
(***************************************************************************)
EXTENDS DataDriven, Pauli

VARIABLE i
Init == i = 0
Next == i < NRecs /\ i' = i + 1

RECURSIVE Pow(_, _)
Pow(b, e) == IF e = 0 THEN 1 ELSE b * Pow(b, e - 1)

Digit(t, q) == (t \div Pow(4, q)) % 4
ErrOf(t, n) == Op({ q \in 0..(n-1) : Digit(t, q) \in {1, 2} },
                  { q \in 0..(n-1) : Digit(t, q) \in {2, 3} })

\* 2k-bit effective error as the set of positions that are 1 (0-based):
\* positions 0..k-1 = anticommutes with logical Z_i (X-type action),
\* positions k..2k-1 = anticommutes with logical X_i (Z-type action).
EffPositions(c, e) == { j - 1 : j \in EffectX(c, e) } \cup { c.k + j - 1 : j \in EffectZ(c, e) }
BitsOf(m, w) == { p \in 0..(w-1) : (m \div Pow(2, p)) % 2 = 1 }

FailedAll(r) ==
  LET c == AsCode(r)
      G == StabGroup(c)
      N == Pow(4, c.n)
      E(t) == ErrOf(t, c.n)
  IN (IF Len(r.cs) = N THEN {} ELSE {"all_operators_covered"})
\cup (IF \A t \in 0..(N-1) : (r.cs[t+1] = 1) = InCodespace(c, E(t)) THEN {} ELSE {"in_codespace_iff_commutes_with_generators"})
\cup (IF \A t \in 0..(N-1) : BitsOf(r.le[t+1], 2*c.k) = EffPositions(c, E(t)) THEN {} ELSE {"logical_effect_bits"})
\cup (IF \A t \in 0..(N-1) : BitsOf(r.le2[t+1], 2*c.k) = EffPositions(c, E(t)) THEN {} ELSE {"logical_effect_bits_stacked_call"})
\cup (IF \A t \in 0..(N-1) : (r.ile[t+1] = 1) = (Effect(c, E(t)) # NoEffect) THEN {} ELSE {"is_logical_error"})
\cup (IF \A t \in 0..(N-1) : (r.suc[t+1] = 1) = (E(t) \in G) THEN {} ELSE {"success_iff_stabilizer"})
\cup (IF \A t \in 0..(N-1) : (r.rsuc[t+1] = 1) = (E(t) \in G) THEN {} ELSE {"run_once_success_iff_stabilizer"})
\cup (IF \A t \in 0..(N-1) : (r.rcs[t+1] = 1) = InCodespace(c, E(t)) THEN {} ELSE {"run_once_codespace"})
\cup (IF \A t \in 0..(N-1) : BitsOf(r.rle[t+1], 2*c.k) = EffPositions(c, E(t)) THEN {} ELSE {"run_once_effective_error"})

FailedSome(r) ==
  LET c == AsCode(r)
      B == Echelon(StabRows(c))
      IsStab(e) == InSpanOf(Cols(e, c.n), B)
      O == r.obs
  IN (IF \A j \in DOMAIN O : O[j].cs = InCodespace(c, AsOp(O[j].e)) THEN {} ELSE {"in_codespace_iff_commutes_with_generators"})
\cup (IF \A j \in DOMAIN O : AsSet(O[j].le) = EffPositions(c, AsOp(O[j].e)) THEN {} ELSE {"logical_effect_bits"})
\cup (IF \A j \in DOMAIN O : O[j].ile = (Effect(c, AsOp(O[j].e)) # NoEffect) THEN {} ELSE {"is_logical_error"})
\cup (IF \A j \in DOMAIN O : \A b \in DOMAIN O[j].le_stacked : AsSet(O[j].le_stacked[b]) = EffPositions(c, AsOp(O[j].e))
      THEN {} ELSE {"logical_effect_bits_stacked_call"})
\cup (IF \A j \in DOMAIN O : O[j].suc = IsStab(AsOp(O[j].e)) THEN {} ELSE {"success_iff_stabilizer"})
\cup (IF \A j \in DOMAIN O : O[j].rsuc = IsStab(AsOp(O[j].e)) THEN {} ELSE {"run_once_success_iff_stabilizer"})
\* the harness builds some operators as (product of generators) * e0 : the
\* verdict on the product must be the verdict on e0 (coset constancy)
\cup (IF \A j \in DOMAIN O : O[j].base > 0 =>
            /\ O[j].le = O[O[j].base].le /\ O[j].cs = O[O[j].base].cs /\ O[j].suc = O[O[j].base].suc
      THEN {} ELSE {"constant_on_stabilizer_cosets"})

Failed(r) == IF r.mode = "all" THEN FailedAll(r) ELSE FailedSome(r)

Judged == i = 0 \/ Report(Recs[i].id, Failed(Recs[i]))
Post == PrintT(<<"CHECKED", TLCGet("distinct") - 1>>)
=============================================================================
