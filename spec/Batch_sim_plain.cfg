CONSTANTS
  Sims = {"s1", "s2"}
  SimOrder <- Order2
  Foreign = "f"
  MaxTarget = 3
  SaveFreqs = {1, 2, 3}
  Compressed = FALSE
  AtomicSave = TRUE
  MaxRuns = 3
  MaxKills = 100
  MaxInterrupts = 100
  RepairPartial = TRUE
  TailSave = TRUE
  Planned = TRUE
INIT Init
NEXT Next
INVARIANT TypeOK
INVARIANT Completes
INVARIANT ExactCounts
INVARIANT NoDup
INVARIANT NoForeign
INVARIANT LoadAdoptsLastGood
INVARIANT DiskConsistent
CONSTRAINT Emit
