CONSTANTS Update = "toggle"
          Depth = 3
INIT Init
NEXT Next
INVARIANT TracksInv
INVARIANT CleanExitInv
