CONSTANTS MaxContainers = 3
 MaxSlots = 1
 SampleEvery = 110
INIT Init
NEXT Next
INVARIANT PartitionInv
INVARIANT PoolingIsLayoutIndependent
INVARIANT SectorBound
INVARIANT Emit
