INIT Init
NEXT Next
INVARIANT Judged
INVARIANT Conservation
INVARIANT NeverTooMany
POSTCONDITION Post
