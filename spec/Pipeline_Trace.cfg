INIT Init
NEXT Next
INVARIANT Judged
INVARIANT Conservation
INVARIANT NeverTooMany
INVARIANT NoTaskBeyondItsLargestShare
POSTCONDITION Post
