INIT Init
NEXT Next
INVARIANT Light
INVARIANT NoLightLogical
INVARIANT AttainedInv
POSTCONDITION Post
