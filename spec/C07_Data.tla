----------------------------- MODULE C07_Data -----------------------------
(***************************************************************************)
(* C07, spec -> code: one record per (code, noise deformation, grid point  *)
(* (pn, r)).  Floats observed in the implementation arrive as integers:    *)
(*  - probability tables: numerators over D2 (-1 if further than 1e-12     *)
(*    from the grid)                                                       *)
(*  - other quantities (flip marginals recovered from matching weights,    *)
(*    BP channel probabilities, conditional updates): k = round(f * G)     *)
(* and are compared with the rationals of Noise.tla by integer             *)
(* cross-multiplication.                                                   *)
(***************************************************************************)
EXTENDS DataDriven, Noise

VARIABLE i
Init == i = 0
Next == i < NRecs /\ i' = i + 1

PermOf(t) == [X |-> t[1], Y |-> t[2], Z |-> t[3]]
Tol == 2     \* in units of 1/G

Failed(r) ==
  LET n == r.n
      base == Chan(r.pn, r.r)
      ch == [q \in 1..n |-> Deformed(base, PermOf(r.D[q]))]
      G == r.G
  IN (IF \A q \in 1..n : r.tables[q] = <<ch[q].I, ch[q].X, ch[q].Y, ch[q].Z>>
      THEN {} ELSE {"per_qubit_probabilities_are_the_relabelled_channel"})
\cup (IF \A q \in 1..n : Normalised(ch[q]) THEN {} ELSE {"normalised_nonnegative"})
\cup (IF \A s \in DOMAIN r.samples :
           /\ r.samples[s].len = 2 * n /\ r.samples[s].binary
      THEN {} ELSE {"sample_is_binary_bsf_of_length_2n"})
\* every qubit saw every midpoint variate exactly once (Latin arrangement): the
\* number of samples in which it carries a letter is that letter's numerator,
\* whichever variate the sampler maps to which letter
\cup (IF Len(r.samples) # D2 \/
         \A q \in 1..n : \A s \in {"I", "X", "Y", "Z"} :
             Cardinality({ k \in DOMAIN r.samples : r.samples[k].letters[q] = s }) = ch[q][s]
      THEN {} ELSE {"each_qubit_drawn_from_exactly_its_channel"})
\cup (IF Len(r.samples) # D2 \/
         \A q \in 1..n : { r.samples[k].js[q] : k \in DOMAIN r.samples } = 0..(D2 - 1)
      THEN {} ELSE {"every_variate_value_covered_per_qubit"})
\cup (IF Len(r.fast) = 0 \/ \A s \in {"I", "X", "Y", "Z"} :
           Cardinality({ f \in DOMAIN r.fast : r.fast[f][2] = s }) = ch[1][s]
      THEN {} ELSE {"inverse_cdf_choice_has_the_channel_measure"})
\cup (IF Len(r.fast) = 0 \/ { r.fast[f][1] : f \in DOMAIN r.fast } = 0..(D2 - 1)
      THEN {} ELSE {"every_variate_value_covered"})
\* at the ends of the variate's range (u = 0 exactly, u just below 1) and
\* everywhere else: a Pauli the channel gives probability zero is never drawn
\cup (IF /\ \A e \in DOMAIN r.edge : \A q \in 1..n :
              r.edge[e][q] \in {"I", "X", "Y", "Z"} /\ ch[q][r.edge[e][q]] > 0
         /\ \A s \in DOMAIN r.samples : \A q \in 1..n :
              r.samples[s].letters[q] \in {"I", "X", "Y", "Z"} => ch[q][r.samples[s].letters[q]] > 0
      THEN {} ELSE {"pauli_of_probability_zero_drawn"})
\cup (IF r.pn # 0 \/ \A s \in DOMAIN r.samples : \A q \in 1..n : r.samples[s].letters[q] = "I"
      THEN {} ELSE {"p_zero_gives_no_error"})
\cup (IF r.pn # Den \/ \A s \in DOMAIN r.samples : \A q \in 1..n : r.samples[s].letters[q] # "I"
      THEN {} ELSE {"p_one_gives_an_error_on_every_qubit"})
\cup (IF \A q \in DOMAIN r.wx : Close(r.wx[q], G, PX(ch[q]), D2, Tol) /\ Close(r.wz[q], G, PZ(ch[q]), D2, Tol)
      THEN {} ELSE {"matching_weights_are_llr_of_flip_marginals"})
\* the weights on the edges of the matching graphs the decoder builds
\cup (IF /\ \A j \in DOMAIN r.mwx : Close(r.mwx[j][2], G, PX(ch[r.mwx[j][1]]), D2, Tol)
         /\ \A j \in DOMAIN r.mwz : Close(r.mwz[j][2], G, PZ(ch[r.mwz[j][1]]), D2, Tol)
      THEN {} ELSE {"weights_on_the_matching_graph_are_llr_of_flip_marginals"})
\cup (IF \A q \in DOMAIN r.bp_px : Close(r.bp_px[q], G, PX(ch[q]), D2, Tol) /\ Close(r.bp_pz[q], G, PZ(ch[q]), D2, Tol)
      THEN {} ELSE {"bp_channel_probabilities_are_flip_marginals"})
\cup (IF \A u \in DOMAIN r.upd :
           LET e == r.upd[u]
               c == IF e.dir = "z->x" THEN XGivenZ(ch[e.q], e.flip) ELSE ZGivenX(ch[e.q], e.flip)
           IN c[2] = 0 \/ Close(e.k, G, c[1], c[2], Tol)
      THEN {} ELSE {"conditional_update_is_conditional_probability"})

\* records with a field `forked`: the error sequences (one number per trial) drawn by
\* simulations that were built WITHOUT a generator in worker processes forked from one
\* parent - "drawn independently": no two workers replay the same sequence
FailedForked(r) ==
  IF \A a \in DOMAIN r.forked : \A b \in DOMAIN r.forked : a # b => r.forked[a] # r.forked[b]
  THEN {} ELSE {"workers_forked_from_one_process_draw_the_same_errors"}
IsForked(r) == "forked" \in DOMAIN r

Judged == i = 0 \/ Report(Recs[i].id, IF IsForked(Recs[i]) THEN FailedForked(Recs[i]) ELSE Failed(Recs[i]))
Post == PrintT(<<"CHECKED", TLCGet("distinct") - 1>>)
=============================================================================
