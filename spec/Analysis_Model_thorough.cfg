CONSTANTS MaxContainers = 2
 MaxSlots = 2
 SampleEvery = 160
INIT Init
NEXT Next
INVARIANT PartitionInv
INVARIANT PoolingIsLayoutIndependent
INVARIANT SectorBound
INVARIANT Emit
