INIT Init
NEXT Next
INVARIANT Judged
POSTCONDITION Post
