CONSTANTS
  Sims = {"s1", "s2"}
  SimOrder <- Order2
  Foreign = "f"
  MaxTarget = 2
  SaveFreqs = {1, 2}
  Compressed = TRUE
  AtomicSave = TRUE
  MaxRuns = 3
  MaxKills = 1
  MaxInterrupts = 1
  RepairPartial = TRUE
  TailSave = TRUE
  Planned = FALSE
SPECIFICATION LiveSpec
INVARIANT TypeOK
PROPERTY EveryRunEnds
PROPERTY UndisturbedRunCompletes
