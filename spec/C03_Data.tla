----------------------------- MODULE C03_Data -----------------------------
(***************************************************************************)
(* C03, code -> spec: the commutation product in every accepted            *)
(* representation, the Pauli <-> string/int/BSF/sparse conversions, the    *)
(* GF(2) rank and the sparse-row helpers, against Pauli.tla.               *)
(* Record kinds:                                                           *)
(*  "prod"  : A, B stacks of operators; res[r] a matrix (one per           *)
(*            representation pair r) that must equal Symp entrywise        *)
(*  "conv"  : one operator and every conversion of it                      *)
(*  "rank"  : rows (sets of columns), reported rank                        *)
(*  "sparse": the bsparse helpers on row vectors                           *)
(***************************************************************************)
EXTENDS DataDriven, Pauli

VARIABLE i
Init == i = 0
Next == i < NRecs /\ i' = i + 1

RECURSIVE Pow2(_)
Pow2(e) == IF e = 0 THEN 1 ELSE 2 * Pow2(e - 1)

\* bvector_to_int: the 2n-bit vector read as a binary numeral, bit 0 (the X
\* bit of qubit 0) most significant.
IntRep(a, n) == LET C == Cols(a, n) IN
                LET S(p) == IF p \in C THEN Pow2(2*n - 1 - p) ELSE 0 IN
                LET RECURSIVE Sum(_)
                    Sum(p) == IF p < 0 THEN 0 ELSE S(p) + Sum(p - 1)
                IN Sum(2*n - 1)

Str(a, n) == [q \in 1..n |-> Letter(a, q - 1)]

FailedProd(r) ==
  LET A == AsOps(r.A)
      B == AsOps(r.B)
  IN { "symplectic_product_rep_" \o ToString(j) : j \in
        { j \in DOMAIN r.res :
            \E p \in DOMAIN A : \E q \in DOMAIN B :
                r.res[j][p][q] # Symp(A[p], B[q]) } }
  \cup (IF \A j \in DOMAIN r.res : Len(r.res[j]) = Len(A) /\ \A p \in DOMAIN A : Len(r.res[j][p]) = Len(B)
        THEN {} ELSE {"result_shape"})

FailedConv(r) ==
  LET a == AsOp(r.a)  n == r.n IN
     (IF r.str_bvector = Str(a, n) THEN {} ELSE {"bvector_to_pauli_string"})
\cup (IF r.str_dense = Str(a, n) THEN {} ELSE {"bsf_to_pauli_dense"})
\cup (IF r.str_sparse = Str(a, n) THEN {} ELSE {"bsf_to_pauli_sparse"})
\cup (IF r.str_sparse_unsorted = Str(a, n) THEN {} ELSE {"bsf_to_pauli_sparse_row_with_unsorted_indices"})
\cup (IF r.wt_sparse_unsorted = Wt(a) THEN {} ELSE {"bsf_wt_sparse_row_with_unsorted_indices"})
\cup (IF r.str_stack = Str(a, n) THEN {} ELSE {"bsf_to_pauli_stacked"})
\cup (IF AsOp(r.from_str) = a THEN {} ELSE {"pauli_to_bsf"})
\cup (IF AsOp(r.from_str2) = a THEN {} ELSE {"pauli_string_to_bvector"})
\cup (IF r.wt_dense = Wt(a) THEN {} ELSE {"bsf_wt_dense"})
\cup (IF r.wt_sparse = Wt(a) THEN {} ELSE {"bsf_wt_sparse"})
\cup (IF r.int >= 0 => r.int = IntRep(a, n) THEN {} ELSE {"bvector_to_int"})
\cup (IF AsOp(r.int_back) = a THEN {} ELSE {"int_to_bvector_inverse"})
\cup (IF AsSet(r.sparse_cols) = Cols(a, n) /\ AsOp(r.sparse_back) = a THEN {} ELSE {"sparse_row_roundtrip"})
\cup (IF AsOp(r.hadamard_all) = Op(a.z, a.x) THEN {} ELSE {"apply_deformation_swaps_x_z"})

FailedRank(r) ==
  IF r.rank = RankOfSets({ AsSet(r.rows[j]) : j \in DOMAIN r.rows }) THEN {} ELSE {"gf2_rank"}

FailedSparse(r) ==
  LET a == AsSet(r.a)  b == AsSet(r.b) IN
     (IF r.dot = Cardinality(a \cap b) % 2 THEN {} ELSE {"sparse_dot"})
\cup (IF AsSet(r.inserted) = SDiff(a, {r.idx}) THEN {} ELSE {"insert_mod2_toggles"})
\cup (IF r.is_one = (r.idx \in a) THEN {} ELSE {"is_one"})
\cup (IF AsSet(r.left) = { c \in a : c < r.half } /\ AsSet(r.right) = { c - r.half : c \in { d \in a : d >= r.half } }
      THEN {} ELSE {"hsplit"})
\cup (IF r.equal_ab = (a = b) /\ r.equal_aa THEN {} ELSE {"sparse_equal"})

Failed(r) == CASE r.kind = "prod" -> FailedProd(r)
               [] r.kind = "conv" -> FailedConv(r)
               [] r.kind = "rank" -> FailedRank(r)
               [] r.kind = "sparse" -> FailedSparse(r)

Judged == i = 0 \/ Report(Recs[i].id, Failed(Recs[i]))
Post == PrintT(<<"CHECKED", TLCGet("distinct") - 1>>)
=============================================================================
