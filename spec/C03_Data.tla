----------------------------- MODULE C03_Data -----------------------------
(***************************************************************************)
(* C03, code -> spec: the commutation product in every accepted            *)
(* representation, the Pauli <-> string/int/BSF/sparse conversions, the    *)
(* GF(2) rank and the sparse-row helpers, against Pauli.tla.               *)
(* Record kinds:                                                           *)
(*  "prod"  : A, B stacks of operators; res[r] a matrix (one per           *)
(*            representation pair r) that must equal Symp entrywise        *)
(*  "conv"  : one operator and every conversion of it                      *)
(*  "rank"  : rows (sets of columns), reported rank                        *)
(*  "sparse": the bsparse helpers on row vectors                           *)
(***************************************************************************)
EXTENDS DataDriven, Pauli

VARIABLE i
Init == i = 0
Next == i < NRecs /\ i' = i + 1

RECURSIVE Pow2(_)
Pow2(e) == IF e = 0 THEN 1 ELSE 2 * Pow2(e - 1)

\* bvector_to_int: the 2n-bit vector read as a binary numeral, bit 0 (the X
\* bit of qubit 0) most significant.
IntRep(a, n) == LET C == Cols(a, n) IN
                LET S(p) == IF p \in C THEN Pow2(2*n - 1 - p) ELSE 0 IN
                LET RECURSIVE Sum(_)
                    Sum(p) == IF p < 0 THEN 0 ELSE S(p) + Sum(p - 1)
                IN Sum(2*n - 1)

Str(a, n) == [q \in 1..n |-> Letter(a, q - 1)]

FailedProd(r) ==
  LET A == AsOps(r.A)
      B == AsOps(r.B)
  IN { "symplectic_product_rep_" \o ToString(j) : j \in
        { j \in DOMAIN r.res :
            \E p \in DOMAIN A : \E q \in DOMAIN B :
                r.res[j][p][q] # Symp(A[p], B[q]) } }
  \cup (IF \A j \in DOMAIN r.res : Len(r.res[j]) = Len(A) /\ \A p \in DOMAIN A : Len(r.res[j][p]) = Len(B)
        THEN {} ELSE {"result_shape"})

\* kind "ints": bvectors_to_ints on a long list; digits[j] = binary expansion of the
\* j-th integer returned (<<>> if it is negative or has more than 2n digits)
FailedInts(r) ==
     (IF Len(r.digits) = Len(r.vecs) /\ \A j \in DOMAIN r.vecs : r.digits[j] = r.vecs[j]
      THEN {} ELSE {"bvectors_to_ints_is_the_binary_number_of_each_vector"})
\cup (IF Len(r.back) = Len(r.vecs) /\ \A j \in DOMAIN r.vecs : r.back[j] = r.vecs[j]
      THEN {} ELSE {"ints_to_bvectors_inverts_bvectors_to_ints"})

FailedConv(r) ==
  LET a == AsOp(r.a)  n == r.n IN
     (IF r.str_bvector = Str(a, n) THEN {} ELSE {"bvector_to_pauli_string"})
\cup (IF r.str_dense = Str(a, n) THEN {} ELSE {"bsf_to_pauli_dense"})
\cup (IF r.str_sparse = Str(a, n) THEN {} ELSE {"bsf_to_pauli_sparse"})
\cup (IF r.str_sparse_unsorted = Str(a, n) THEN {} ELSE {"bsf_to_pauli_sparse_row_with_unsorted_indices"})
\cup (IF r.wt_sparse_unsorted = Wt(a) THEN {} ELSE {"bsf_wt_sparse_row_with_unsorted_indices"})
\cup (IF r.str_stack = Str(a, n) THEN {} ELSE {"bsf_to_pauli_stacked"})
\cup (IF AsOp(r.from_str) = a THEN {} ELSE {"pauli_to_bsf"})
\cup (IF AsOp(r.from_str2) = a THEN {} ELSE {"pauli_string_to_bvector"})
\cup (IF r.wt_dense = Wt(a) THEN {} ELSE {"bsf_wt_dense"})
\cup (IF r.wt_sparse = Wt(a) THEN {} ELSE {"bsf_wt_sparse"})
\cup (IF r.int >= 0 => r.int = IntRep(a, n) THEN {} ELSE {"bvector_to_int"})
\cup (IF AsOp(r.int_back) = a THEN {} ELSE {"int_to_bvector_inverse"})
\cup (IF AsSet(r.sparse_cols) = Cols(a, n) /\ AsOp(r.sparse_back) = a THEN {} ELSE {"sparse_row_roundtrip"})
\cup (IF AsOp(r.hadamard_all) = Op(a.z, a.x) THEN {} ELSE {"apply_deformation_swaps_x_z"})
\cup (IF AsOp(r.hadamard_even) = Op({ q \in a.x : q % 2 = 1 } \cup { q \in a.z : q % 2 = 0 },
                                    { q \in a.z : q % 2 = 1 } \cup { q \in a.x : q % 2 = 0 })
      THEN {} ELSE {"apply_deformation_on_a_subset_of_qubits"})
\cup (IF r.ints_stack = <<>> \/ (r.ints_stack = <<IntRep(a, n), 0, IntRep(AsOp(r.rev), n)>>
                                 /\ AsOps(r.ints_stack_back) = <<a, Op({}, {}), AsOp(r.rev)>>)
      THEN {} ELSE {"bvectors_to_ints_and_back"})

FailedRank(r) ==
  IF r.rank = RankOfSets({ AsSet(r.rows[j]) : j \in DOMAIN r.rows }) THEN {} ELSE {"gf2_rank"}

FailedSparse(r) ==
  LET a == AsSet(r.a)  b == AsSet(r.b) IN
     (IF r.dot = Cardinality(a \cap b) % 2 THEN {} ELSE {"sparse_dot"})
\cup (IF AsSet(r.inserted) = SDiff(a, {r.idx}) THEN {} ELSE {"insert_mod2_toggles"})
\cup (IF r.is_one = (r.idx \in a) THEN {} ELSE {"is_one"})
\cup (IF AsSet(r.left) = { c \in a : c < r.half } /\ AsSet(r.right) = { c - r.half : c \in { d \in a : d >= r.half } }
      THEN {} ELSE {"hsplit"})
\cup (IF r.equal_ab = (a = b) /\ r.equal_aa THEN {} ELSE {"sparse_equal"})
\cup (IF AsSet(r.glued) = a /\ r.glued_shape = <<1, r.width>> THEN {} ELSE {"hstack_of_hsplit"})
\cup (IF Len(r.stacked) = 3 /\ AsSet(r.stacked[1]) = a /\ AsSet(r.stacked[2]) = b /\ r.stacked[3] = <<>>
      THEN {} ELSE {"vstack_rows"})
\cup (IF r.zero_row = <<1, r.width, 0>> /\ r.zero_matrix = <<3, r.width, 0>> /\ r.empty_row = <<0, r.width, 0>>
         /\ r.is_empty = <<TRUE, FALSE, FALSE>> /\ r.is_sparse = <<TRUE, FALSE, FALSE>>
      THEN {} ELSE {"zero_and_empty_rows"})

Failed(r) == CASE r.kind = "prod" -> FailedProd(r)
               [] r.kind = "conv" -> FailedConv(r)
               [] r.kind = "ints" -> FailedInts(r)
               [] r.kind = "rank" -> FailedRank(r)
               [] r.kind = "sparse" -> FailedSparse(r)

Judged == i = 0 \/ Report(Recs[i].id, Failed(Recs[i]))
Post == PrintT(<<"CHECKED", TLCGet("distinct") - 1>>)
=============================================================================
