"""C05 - decoders return valid corrections that reproduce the measured
syndrome.

code -> spec: every decoder x every code it declares (all 16 for
allowed_codes = None, CSS and non-CSS) x sizes x noise directions /
deformations x rates; one decoder object per configuration is constructed and
reused for the whole list of syndromes (zero, all weight-1 errors, random
errors at the rate, every valid syndrome on tiny codes); the event log is
validated by TLC against DecoderContract.tla.
"""
import sys
import time

import numpy as np

from . import codes, common, decoders as D
from panqec.config import DECODERS


DECODER_IS_SPECIFIC = [True]


def sizes_for(name, tier):
    dim = codes.dimension(name)
    max_n = 60 if tier == 'quick' else 130
    ms = 4 if dim == 2 else 3
    if name in ('RhombicToricCode', 'Color3DCode', 'HollowRhombicCode'):
        ms, max_n = 4, 200
    ss = codes.sizes(name, ms, max_n=max_n, min_n=4)
    if not ss:
        return []
    non_cubic = [s for s in ss if len(set(s)) > 1]
    pick = [ss[0], ss[-1]] + [non_cubic[i] for i in sorted({0, len(non_cubic) // 3, (2 * len(non_cubic)) // 3, len(non_cubic) - 1})] if non_cubic else [ss[0], ss[-1]]
    if tier != 'quick' and DECODER_IS_SPECIFIC[0]:
        pick += ss[1::max(1, len(ss) // 4)]
    return list(dict.fromkeys(pick))


def configurations(tier):
    rates = [0.05, 0.3] if tier == 'quick' else [0.01, 0.05, 0.1, 0.3, 0.5]
    out = []
    for dec in DECODERS:
        any_code = DECODERS[dec].allowed_codes is None
        DECODER_IS_SPECIFIC[0] = not any_code
        for cname in D.allowed_code_names(dec):
            variants = codes.deformation_variants(cname)
            for size in sizes_for(cname, tier):
                if any_code and codes.qubit_count(cname, size) > (40 if tier == 'quick' else 70):
                    continue
                if dec == 'MemoryBeliefPropagationDecoder' and codes.qubit_count(cname, size) > 30:
                    continue      # pure-Python BP: keep it on small lattices
                code_defs = [(None, None)]
                if any_code and len(variants) > 1:
                    code_defs.append(variants[1])          # deformed => non-CSS
                noise_sets = [('depol', None, None), ('Zbias', None, None), ('Z', None, None)]
                if len(variants) > 1:
                    noise_sets.append(('Zbias',) + tuple(variants[-1]))
                if tier != 'quick':
                    noise_sets += [('X', None, None), ('Y', None, None)]
                for cd, cdkw in code_defs:
                    for (nz, nd, ndkw) in noise_sets:
                        for p in (rates if not (any_code and tier != 'quick') else [0.01, 0.1, 0.5]):
                            if tier == 'quick' and (nz, p) in (('Z', 0.3), ('depol', 0.05)) and any_code:
                                continue
                            cfg = {'decoder': dec, 'code': cname, 'size': list(size),
                                   'code_def': cd, 'code_def_kw': cdkw,
                                   'noise': nz, 'noise_def': nd, 'noise_def_kw': ndkw,
                                   'p': p}
                            if dec == 'BeliefPropagationOSDDecoder':
                                cfg['dec_kwargs'] = {'max_bp_iter': 20, 'osd_order': 0}
                            if dec == 'MemoryBeliefPropagationDecoder':
                                cfg['dec_kwargs'] = {'max_bp_iter': 10}
                            out.append(cfg)
    # the ends of the rate axis: p = 0, p = 1 and a rate above 1/2 (negative
    # matching weights), pure and mixed channels, one small lattice per pair
    for dec in DECODERS:
        any_code = DECODERS[dec].allowed_codes is None
        names = D.allowed_code_names(dec)
        if any_code:
            names = ['Toric2DCode', 'Planar3DCode', 'Color666PlanarCode', 'XCubeCode']
        for cname in names:
            ss = [s_ for s_ in sizes_for(cname, 'quick')
                  if codes.qubit_count(cname, s_) <= (30 if dec == 'MemoryBeliefPropagationDecoder' else 60)]
            if not ss:
                continue
            non_cubic = [s_ for s_ in ss if len(set(s_)) > 1]
            size = (non_cubic or ss)[0]
            for nz in (('depol', 'Z', 'X', 'Y') if tier != 'quick' else ('depol', 'Z', 'Y')):
                for p in (0.0, 0.7, 1.0):
                    cfg = {'decoder': dec, 'code': cname, 'size': list(size), 'noise': nz, 'p': p}
                    if dec == 'BeliefPropagationOSDDecoder':
                        cfg['dec_kwargs'] = {'max_bp_iter': 10, 'osd_order': 0}
                    if dec == 'MemoryBeliefPropagationDecoder':
                        cfg['dec_kwargs'] = {'max_bp_iter': 5}
                    out.append(cfg)
    # a deformed (non-CSS) code with 256 / 512 generators of mixed type: counts
    # of generators pass 255
    for size, cd in (((8, 16), 'XZZX'), ((16, 16), 'XY')) if tier != 'quick' else (((8, 16), 'XZZX'),):
        out.append({'decoder': 'BeliefPropagationOSDDecoder', 'code': 'Toric2DCode', 'size': list(size),
                    'code_def': cd, 'code_def_kw': {}, 'noise': 'Zbias', 'p': 0.02,
                    'dec_kwargs': {'max_bp_iter': 20, 'osd_order': 0}, '_few': 4})
    # larger lattices, many random errors: cluster growth / merging in the
    # union-find decoder only gets deep on lattices of side >= 7
    for size in ([(7, 7), (8, 8)] if tier == 'quick' else [(7, 7), (8, 8), (6, 9), (9, 9), (10, 8)]):
        for p in (0.1, 0.15):
            out.append({'decoder': 'UnionFindDecoder', 'code': 'Toric2DCode', 'size': list(size),
                        'noise': 'depol', 'p': p, '_stress': 120 if tier == 'quick' else 600})
            out.append({'decoder': 'MatchingDecoder', 'code': 'Toric2DCode', 'size': list(size),
                        'noise': 'depol', 'p': p, '_stress': 120 if tier == 'quick' else 600})
    # every constructor parameter of the decoders, on a few lattices
    variants = [
        ('BeliefPropagationOSDDecoder', {'max_bp_iter': 10, 'osd_order': 3, 'bp_method': 'product_sum'}),
        ('BeliefPropagationOSDDecoder', {'max_bp_iter': 5, 'osd_order': 0, 'channel_update': True}),
        ('BeliefPropagationOSDDecoder', {'max_bp_iter': 1, 'osd_order': 10}),
        ('MemoryBeliefPropagationDecoder', {'max_bp_iter': 5, 'alpha': 0.7, 'beta': 0.2}),
    ]
    for dec, kw in variants:
        for cname, size in (('Toric2DCode', (3, 4)), ('Planar3DCode', (2, 2, 3)), ('RotatedPlanar2DCode', (3, 5)),
                            ('Color488Code', (2, 2))):
            if dec == 'MemoryBeliefPropagationDecoder' and codes.qubit_count(cname, size) > 30:
                continue
            for cd in (None, 'first'):
                vs = codes.deformation_variants(cname)
                if cd and len(vs) < 2:
                    continue
                out.append({'decoder': dec, 'code': cname, 'size': list(size),
                            'code_def': vs[1][0] if cd else None, 'code_def_kw': vs[1][1] if cd else None,
                            'noise': 'Zbias', 'p': 0.1, 'dec_kwargs': dict(kw)})
    # ... and every such variant at the ends of the rate axis with pure channels
    for dec, kw in variants:
        for nz in ('Z', 'Y', 'X', 'depol'):
            for p in (0.0, 1.0):
                for cname, size in (('Toric2DCode', (3, 4)), ('RotatedPlanar2DCode', (3, 3))):
                    if dec == 'MemoryBeliefPropagationDecoder' and codes.qubit_count(cname, size) > 30:
                        continue
                    out.append({'decoder': dec, 'code': cname, 'size': list(size), 'noise': nz, 'p': p,
                                'dec_kwargs': dict(kw), '_few': 6})
    for rounds, seed in ((1, 3), (4, 7)):
        out.append({'decoder': 'RotatedSweepMatchDecoder', 'code': 'RotatedPlanar3DCode', 'size': [3, 3, 3],
                    'noise': 'depol', 'p': 0.05, 'dec_kwargs': {'max_rounds': rounds}})
    import numpy as _np
    for cname, size in (('Toric2DCode', (3, 4)), ('Planar2DCode', (4, 3))):
        n_ = codes.qubit_count(cname, size)
        w = (_np.linspace(0.5, 2.0, n_).tolist(), _np.linspace(2.0, 0.5, n_).tolist())
        out.append({'decoder': 'MatchingDecoder', 'code': cname, 'size': list(size), 'noise': 'depol',
                    'p': 0.1, 'dec_kwargs': {'weights': w}})
    # MatchingDecoder restricted to one error type (its contract is per sector)
    for et in ('X', 'Z'):
        out.append({'decoder': 'MatchingDecoder', 'code': 'Toric2DCode', 'size': [3, 4],
                    'noise': 'depol', 'p': 0.1, 'dec_kwargs': {'error_type': et}})
    return out


@common.safe
def drive(cfg):
    tier = cfg.pop('_tier')
    stress = cfg.pop('_stress', 0)
    few = cfg.pop('_few', 0)
    rng = np.random.default_rng(common.seed() + abs(hash(D.config_label(cfg))) % 2**31)
    rec = D.Recorder(cfg)
    code, em = rec.code, rec.em
    n = code.n
    if not rec.construct(0):
        return rec.record()
    syns = [np.zeros(code.stabilizer_matrix.shape[0], dtype=np.uint8)]
    allsyn = D.all_syndromes(code, 64 if tier == 'quick' else 1024)
    if allsyn is not None:
        idx = rng.permutation(len(allsyn))
        syns += [allsyn[int(j)] for j in idx]
    else:
        cols = rng.permutation(2 * n)[:(24 if tier == 'quick' else 2 * n)]
        for c in cols:                                   # weight-1 X and Z errors
            e = np.zeros(2 * n, dtype=np.uint8)
            e[int(c)] = 1
            syns.append(code.measure_syndrome(e))
        for q in rng.permutation(n)[:6]:                 # weight-1 Y errors
            e = np.zeros(2 * n, dtype=np.uint8)
            e[int(q)] = e[n + int(q)] = 1
            syns.append(code.measure_syndrome(e))
    if stress:
        syns = syns[:1]
    for _ in range(stress or (8 if tier == 'quick' else 40)):
        e = em.generate(code, cfg['p'], rng=rng)
        syns.append(code.measure_syndrome(e))
    syns.append(syns[0])                                 # zero syndrome again, late
    if few:
        syns = syns[:1] + syns[-few - 1:]
    for s in syns:
        rec.decode(0, np.asarray(s).ravel().astype(np.uint8))
    sector = 'all'
    if cfg.get('dec_kwargs', {}).get('error_type'):
        sector = cfg['dec_kwargs']['error_type']
    return rec.record(sector=sector)


def run(tier):
    t0 = time.time()
    v = common.Verdict('C05')
    cfgs = configurations(tier)
    for c in cfgs:
        c['_tier'] = tier
    recs = common.pmap(drive, cfgs, procs=15)
    recs = common.split_raised('C05', v, recs)
    for j, r in enumerate(recs):
        r['id'] = j
    rej, st = D.eval_traces(recs, 'c05')
    first_raise = {}
    for r in recs:
        mine = [c for c in rej.get(r['id'], []) if c.split('@')[0] in D.C05_CLAUSES]
        if mine:
            raised = sorted({e['raised'] for e in r['events'] if e.get('raised')})
            v.reject(D.finding_key('C05', r, mine),
                     {'config': r['_label'], 'failed': sorted(set(mine))[:12],
                      'raised': raised[:3],
                      'first_bad_event': next((e for j, e in enumerate(r['events'], 1)
                                               if any(c.endswith(f'@{j}') for c in mine)), None)})
    def _corrupt(r):
        if not r['complete'] or r['id'] in rej or len(r['events']) < 3 or r['n'] < 4:
            return None
        e = r['events'][2]
        if e['kind'] != 'decode' or e['raised']:
            return None
        cx = e['corr']['x']
        e['corr']['x'] = cx[1:] if cx else [0]
        r['events'] = r['events'][:3]
        return r
    common.binding_selftest('c05', 'DecoderContract', recs, _corrupt,
                            evaluator=lambda rr: D.eval_traces(rr, 'c05-selftest', shards=1))
    # union-find clustering invariants (UnionFind_Trace.tla)
    from . import uf_trace
    uf_recs, uf_rej, uf_st = uf_trace.run(tier, common.seed())
    for r in uf_recs:
        if r['id'] in uf_rej:
            names = sorted({c.split('@')[0] for c in uf_rej[r['id']]})
            v.reject(f"C05:UnionFindDecoder@Toric2DCode[{D.shape_tag(r['_size'])}]:clustering:" + names[0],
                     {'case': r['_label'], 'defects': r['defects'], 'failed': sorted(set(uf_rej[r['id']]))[:6],
                      'raised': r['raised']})
    rc = v.finish()
    n_dec = sum(1 for r in recs for e in r['events'] if e['kind'] == 'decode')
    by_dec = {}
    for r in recs:
        by_dec[r['_cfg']['decoder']] = by_dec.get(r['_cfg']['decoder'], 0) + 1
    common.write_evidence(
        'C05', tier, 'model_checking',
        {
            'states': st['distinct'] + uf_st['distinct'], 'transitions': st['generated'] + uf_st['generated'],
            'traces_validated_against_impl': len(recs),
            'samples': [{'config': r['_label'], 'events': len(r['events']),
                         'first_decode': r['events'][1] if len(r['events']) > 1 else None}
                        for r in recs[::max(1, len(recs) // 6)]],
            'evaluations': n_dec,
            'distinct_nontrivial': len({(r['_label'], tuple(e['syn'])) for r in recs
                                        for e in r['events'] if e['kind'] == 'decode' and e['syn']}),
            'rule': 'one event log per (decoder, declared code, size, code '
                    'deformation, noise direction, noise deformation, rate); '
                    'syndromes = zero, weight-1 errors, random errors at the '
                    'rate, all valid syndromes when few; non-trivial = '
                    'distinct (configuration, non-zero syndrome)',
            'configurations': len(recs), 'configurations_by_decoder': by_dec,
            'union_find_decodes_traced': len(uf_recs), 'union_find_snapshots_judged': uf_st['distinct'],
            'decode_events': n_dec, 'exhaustive': False,
        },
        time.time() - t0, len(v.violations),
        assumptions=['complete decoders: MatchingDecoder, UnionFindDecoder, '
                     'BeliefPropagationOSDDecoder (as the property lists them)',
                     'one decoder object is reused for the whole list, as a '
                     'simulation does'])
    print(f'C05 {tier}: {len(recs)} configurations, {n_dec} decode events, '
          f'{len(rej)} configurations rejected, {time.time()-t0:.1f}s')
    return rc


def main():
    tier = sys.argv[1] if len(sys.argv) > 1 else 'quick'
    common.main_wrapper(lambda: run(tier))


if __name__ == '__main__':
    main()
