"""C03 - Pauli representations are lossless and the symplectic product is
exact.

model: PauliMC.tla (bilinear, symmetric, alternating, encodings inverse; all
operators on 3 qubits).
code -> spec: every pair of operators on n <= 2 (quick) / 3 (thorough) qubits
through bs_prod in every representation pair, every conversion of every
operator, stacks, random stacks up to n = 600 with overlaps > 255, brank and
the bsparse row helpers; TLC (C03_Data.tla) recomputes each result.
"""
import itertools
import sys
import time

import numpy as np
from scipy.sparse import csr_matrix

from . import codes, common
from panqec import bpauli, bsparse

DTYPES = ['uint8', 'int8', 'int16', 'int32', 'int64', 'uint32', 'uint64']


def noncanonical(mat):
    """The same GF(2) matrix as a csr_matrix in non-canonical storage, the way
    sparse GF(2) addition leaves it: e = e1 + e2; e.data %= 2 keeps explicitly
    stored zeros where e1 and e2 overlap, and unsorted index order."""
    mat = np.asarray(mat, dtype=np.uint8)
    mask = np.zeros_like(mat)
    mask[:, ::2] = 1                       # deterministic overlap pattern
    a = csr_matrix(((mat + mask) % 2).astype(np.uint8))
    b = csr_matrix(mask)
    e = (a + b).tocsr()
    e.data %= 2
    return e.astype(np.uint8)


def reps_single(vec):
    """Every accepted representation of one operator (name, value)."""
    # a list of Python truth values (mask.tolist(), [q in support for q in ...]) is a list too
    out = [('list', [int(x) for x in vec]), ('list-bool', [bool(x) for x in vec])]
    for dt in DTYPES:
        out.append((f'nd1-{dt}', np.array(vec, dtype=dt)))
        out.append((f'nd2-{dt}', np.array(vec, dtype=dt).reshape(1, -1)))
    out.append(('csr', csr_matrix(np.array(vec, dtype='uint8').reshape(1, -1))))
    out.append(('csr-stored-zeros', noncanonical(np.array(vec, dtype='uint8').reshape(1, -1))))
    return out


def reps_stack(mat, light=False):
    out = [('list', [[int(x) for x in row] for row in mat]),
           ('list-bool', [[bool(x) for x in row] for row in mat])]
    for dt in (DTYPES if not light else ['uint8', 'int8', 'int64']):
        out.append((f'nd2-{dt}', np.array(mat, dtype=dt)))
    out.append(('csr', csr_matrix(np.array(mat, dtype='uint8'))))
    out.append(('csr-stored-zeros', noncanonical(np.array(mat, dtype='uint8'))))
    return out


def as_matrix(res, p, q):
    a = np.asarray(res)
    return [[int(x) for x in row] for row in a.reshape(p, q)]


def all_vectors(n):
    return [np.array(bits, dtype=np.uint8)
            for bits in itertools.product([0, 1], repeat=2 * n)]


def prod_records_exhaustive(n, rep_pairs_full):
    """All ordered pairs of operators on n qubits; per pair, one result
    matrix per representation pair."""
    vs = all_vectors(n)
    recs = []
    names = None
    for va in vs:
        ra = reps_single(va)
        for vb in vs:
            rb = reps_single(vb)
            pairs = list(itertools.product(ra, rb)) if rep_pairs_full else \
                [(x, y) for x, y in zip(ra, rb)] + [(ra[0], y) for y in rb] + \
                [(x, rb[-1]) for x in ra] + [(ra[-1], y) for y in rb]
            res = []
            nm = []
            for (na, xa), (nb, xb) in pairs:
                res.append(as_matrix(bpauli.bs_prod(xa, xb), 1, 1))
                nm.append(f'{na}*{nb}')
            names = names or nm
            recs.append({'kind': 'prod', 'n': n,
                         'A': [codes.bsf_to_op(va, n)],
                         'B': [codes.bsf_to_op(vb, n)], 'res': res,
                         '_names': nm})
    return recs


def prod_records_stacks(n, rng, count, max_rows, density, light=True):
    recs = []
    for _ in range(count):
        p = int(rng.integers(1, max_rows + 1))
        q = int(rng.integers(1, max_rows + 1))
        if rng.random() < 0.35:
            q = p
        dens = density if density is not None else rng.choice([0.01, 0.5, 0.99])
        A = (rng.random((p, 2 * n)) < dens).astype(np.uint8)
        B = (rng.random((q, 2 * n)) < dens).astype(np.uint8)
        if rng.random() < 0.2:
            A[0, :] = 1                     # all-Y operator
        if rng.random() < 0.2:
            B[-1, :] = A[0, :]
        res, nm = [], []
        for (na, xa), (nb, xb) in itertools.product(reps_stack(A, light),
                                                    reps_stack(B, light)):
            res.append(as_matrix(bpauli.bs_prod(xa, xb), p, q))
            nm.append(f'{na}*{nb}')
        n_views = 0
        if p == q:
            # the two stacks as interleaved views of ONE buffer (what slicing a
            # table of operators gives): where operands live must not matter
            buf = np.empty((2 * p, 2 * n), dtype=np.uint8)
            buf[0::2] = A
            buf[1::2] = B
            res.append(as_matrix(bpauli.bs_prod(buf[0::2], buf[1::2]), p, q))
            nm.append('views-of-one-buffer')
            res.append(as_matrix(bpauli.bs_prod(buf[:-1][0::2], buf[1:][0::2]), p, q))
            nm.append('shifted-views-of-one-buffer')
            n_views = 2
        # single vs stack forms
        for (na, xa) in reps_stack(A, light):
            res.append(as_matrix(bpauli.bs_prod(xa, B[0]), p, 1)
                       if q >= 1 else [])
            nm.append(f'{na}*nd1-row0')
        rec = {'kind': 'prod', 'n': n,
               'A': [codes.bsf_to_op(r, n) for r in A],
               'B': [codes.bsf_to_op(r, n) for r in B],
               'res': res[:len(reps_stack(A, light)) ** 2 + n_views], '_names': nm}
        recs.append(rec)
        # the stack-vs-single results as a separate record (B = one row)
        k = len(reps_stack(A, light)) ** 2 + n_views
        recs.append({'kind': 'prod', 'n': n,
                     'A': rec['A'], 'B': rec['B'][:1], 'res': res[k:],
                     '_names': nm[k:]})
    return recs


def letters(vec, n):
    return ['IXZY'[int(vec[q]) + 2 * int(vec[n + q])] for q in range(n)]


def conv_record(vec, n):
    vec = np.asarray(vec, dtype=np.uint8)
    s = ''.join(letters(vec, n))
    sp = csr_matrix(vec.reshape(1, -1))
    nzr = np.nonzero(vec)[0][::-1]
    sp_unsorted = csr_matrix((np.ones(len(nzr), dtype=np.uint8), nzr.copy(),
                              np.array([0, len(nzr)])), shape=(1, 2 * n))
    stack = np.vstack([vec, vec])
    rec = {
        'kind': 'conv', 'n': n, 'a': codes.bsf_to_op(vec, n),
        'str_bvector': list(bpauli.bvector_to_pauli_string(vec)),
        'str_dense': list(bpauli.bsf_to_pauli(vec)),
        'str_sparse': list(bpauli.bsf_to_pauli(sp)[0]),
        'str_sparse_unsorted': list(bpauli.bsf_to_pauli(sp_unsorted)[0]),
        'wt_sparse_unsorted': int(bpauli.bsf_wt(sp_unsorted)),
        'str_stack': list(bpauli.bsf_to_pauli(stack)[1]),
        'from_str': codes.bsf_to_op(bpauli.pauli_to_bsf(s), n),
        'from_str2': codes.bsf_to_op(bpauli.pauli_string_to_bvector(s), n),
        'wt_dense': int(bpauli.bsf_wt(vec)),
        'wt_sparse': int(bpauli.bsf_wt(sp)),
        'int': int(bpauli.bvector_to_int(vec)) if 2 * n <= 30 else -1,
        'int_back': codes.bsf_to_op(
            bpauli.int_to_bvector(bpauli.bvector_to_int(vec), n), n),
        'sparse_cols': [int(c) for c in bsparse.from_array(vec.reshape(1, -1)).indices],
        'sparse_back': codes.bsf_to_op(
            bsparse.to_array(bsparse.from_array([list(map(int, vec))])).ravel(), n),
        'hadamard_all': codes.bsf_to_op(
            bpauli.apply_deformation([True] * n, vec), n),
        'hadamard_even': codes.bsf_to_op(
            bpauli.apply_deformation([q % 2 == 0 for q in range(n)], vec), n),
    }
    if 2 * n <= 30:
        zero = np.zeros(2 * n, dtype=np.uint8)
        ints = bpauli.bvectors_to_ints([vec, zero, vec[::-1].copy()])
        back = bpauli.ints_to_bvectors(list(ints), n)
        rec['ints_stack'] = [int(x) for x in ints]
        rec['ints_stack_back'] = [codes.bsf_to_op(np.asarray(b).ravel(), n) for b in back]
        rec['rev'] = codes.bsf_to_op(vec[::-1], n)
    else:
        rec['ints_stack'] = []
        rec['ints_stack_back'] = []
        rec['rev'] = {'x': [], 'z': []}
    return rec


def ints_record(rng, n, count):
    """The list wrappers bvectors_to_ints / ints_to_bvectors on MANY vectors (what
    panqec.io stores for the effective errors of a long run), also beyond 31 and 63
    bits: every integer is exported as its binary expansion (most significant bit
    first, 2n digits) so that TLC compares digit by digit - no machine integers."""
    vs = [(rng.random(2 * n) < 0.5).astype(np.uint8) for _ in range(count)]
    vs[0][:] = 1
    if count > 2:
        vs[1][:] = 0
        vs[2][:] = 0
        vs[2][0] = 1                       # only the leading digit
    ints = bpauli.bvectors_to_ints([list(map(int, v)) for v in vs] if n % 2 else vs)
    digits = []
    for x in ints:
        x = int(x)
        digits.append([int(c) for c in format(x, 'b').zfill(2 * n)] if 0 <= x < 4 ** n else [])
    back = bpauli.ints_to_bvectors([int(x) for x in ints], n)
    return {'kind': 'ints', 'n': n, 'vecs': [[int(b) for b in v] for v in vs], 'digits': digits,
            'back': [[int(b) % 2 for b in np.asarray(b_).ravel()] for b_ in back]}


def rank_record(rng, rows, cols, dens):
    M = (rng.random((rows, cols)) < dens).astype(np.uint8)
    if rows > 2 and rng.random() < 0.5:
        M[-1] = (M[0] + M[1]) % 2
    form = M if rng.random() < 0.5 else csr_matrix(M)
    return {'kind': 'rank', 'rows': [[int(c) for c in np.nonzero(r)[0]] for r in M],
            'rank': int(bpauli.brank(form))}


def sparse_record(rng, width):
    a = (rng.random(width) < 0.4).astype(np.uint8)
    b = (rng.random(width) < 0.4).astype(np.uint8)
    if rng.random() < 0.2:
        b = a.copy()
    ra, rb = bsparse.from_array(a.reshape(1, -1)), bsparse.from_array(b.reshape(1, -1))
    idx = int(rng.integers(width))
    ins = bsparse.from_array(a.reshape(1, -1))
    bsparse.insert_mod2(idx, ins)
    left, right = bsparse.hsplit(ra)
    glued = bsparse.hstack([left, right])
    stacked = bsparse.vstack([ra, rb, bsparse.zero_row(width)])
    zr, zm, er = bsparse.zero_row(width), bsparse.zero_matrix((3, width)), bsparse.empty_row(width)
    return {'kind': 'sparse', 'half': width // 2, 'idx': idx, 'width': width,
            'glued': [int(c) for c in np.nonzero(bsparse.to_array(glued).ravel())[0]],
            'glued_shape': [int(x) for x in glued.shape],
            'stacked': [[int(c) for c in np.nonzero(r)[0]] for r in bsparse.to_array(stacked)],
            'zero_row': [int(zr.shape[0]), int(zr.shape[1]), int(zr.nnz)],
            'zero_matrix': [int(zm.shape[0]), int(zm.shape[1]), int(zm.nnz)],
            'empty_row': [int(er.shape[0]), int(er.shape[1]), int(er.nnz)],
            'is_empty': [bool(bsparse.is_empty(er)), bool(bsparse.is_empty(zr)),
                         bool(bsparse.is_empty(ra))],
            'is_sparse': [bool(bsparse.is_sparse(ra)), bool(bsparse.is_sparse(a)),
                          bool(bsparse.is_sparse(a.tolist()))],
            'a': [int(c) for c in np.nonzero(a)[0]],
            'b': [int(c) for c in np.nonzero(b)[0]],
            'dot': int(bsparse.dot(ra, rb)),
            'inserted': [int(c) for c in ins.indices],
            'is_one': bool(bsparse.is_one(idx, ra)),
            'left': [int(c) for c in left.indices],
            'right': [int(c) for c in right.indices],
            'equal_ab': bool(bsparse.equal(ra, rb)),
            'equal_aa': bool(bsparse.equal(ra, bsparse.from_array(a.reshape(1, -1))))}


def run(tier):
    t0 = time.time()
    rng = np.random.default_rng(common.seed() + 303)
    v = common.Verdict('C03')
    model = common.run_tlc('PauliMC', workers=16, timeout=1200)
    common.require_ok(model, 'PauliMC')
    if model['violation']:
        raise common.MachineryError('PauliMC violated:\n' + model['stdout'][-2000:])
    recs = []
    nmax = 3
    for n in range(1, nmax + 1):
        recs += prod_records_exhaustive(n, rep_pairs_full=(n <= 2))
    n_exh = len(recs)
    # exhaustive small stacks: A = two operators, B = one, n <= 2 (thorough)
    if tier != 'quick':
        vs = all_vectors(2)
        for va, vb in itertools.product(vs, vs):
            A = np.vstack([va, vb])
            for vc in vs[::5] + vs[1:3]:
                res, nm = [], []
                for (na, xa) in reps_stack(A, light=True):
                    for (nb, xb) in reps_single(vc)[:4] + reps_single(vc)[-1:]:
                        res.append(as_matrix(bpauli.bs_prod(xa, xb), 2, 1))
                        nm.append(f'{na}*{nb}')
                recs.append({'kind': 'prod', 'n': 2,
                             'A': [codes.bsf_to_op(va, 2), codes.bsf_to_op(vb, 2)],
                             'B': [codes.bsf_to_op(vc, 2)], 'res': res, '_names': nm})
    # random stacks, incl. overlaps > 255 and extreme densities
    count = 100 if tier == 'quick' else 600
    for n, dens in [(5, None), (40, None), (300, 0.99), (600, 0.99), (600, None),
                    (520, 0.5)]:
        recs += prod_records_stacks(n, rng, count // 4 if n >= 300 else count,
                                    3 if n >= 300 else 4, dens)
    n_prod = len(recs)
    # conversions: all operators for n <= 3 (quick) / 4 (thorough) + random
    for n in range(1, (3 if tier == 'quick' else 4) + 1):
        recs += [conv_record(vec, n) for vec in all_vectors(n)]
    for n in (7, 15, 16, 64, 300):
        for _ in range(count):
            dens = rng.choice([0.05, 0.5, 0.95])
            recs.append(conv_record((rng.random(2 * n) < dens).astype(np.uint8), n))
    # the list wrappers on long lists, around 31 / 32 / 63 / 64 bits and beyond
    for n in (1, 3, 8, 15, 16, 31, 32, 33, 40):
        for cnt in ((1, 101) if tier == 'quick' else (1, 5, 100, 101, 1500)):
            recs.append(ints_record(rng, n, cnt))
    for _ in range(count * 3):
        recs.append(rank_record(rng, int(rng.integers(1, 14)),
                                int(rng.integers(1, 28)), rng.choice([0.1, 0.5, 0.9])))
    for _ in range(count * 3):
        recs.append(sparse_record(rng, 2 * int(rng.integers(1, 20))))
    for j, r in enumerate(recs):
        r['id'] = j
        r['_cost'] = len(r.get('res', [])) * len(r.get('A', [])) * len(r.get('B', [])) * r.get('n', 1) + 5
    rejects, st = common.eval_records('C03_Data', recs, 'c03', shards=16)
    for r in recs:
        if r['id'] in rejects:
            cl = rejects[r['id']]
            named = []
            for c in cl:
                if c.startswith('symplectic_product_rep_'):
                    j = int(c.rsplit('_', 1)[1]) - 1
                    named.append('bs_prod[' + r['_names'][j] + ']')
                else:
                    named.append(c)
            key = 'C03:' + ','.join(sorted(set(named)))[:200]
            v.reject(key, {'record': common.trim({k: x for k, x in r.items()
                                                  if not k.startswith('_')}, 1500),
                           'failed': named})
    rc = v.finish()
    kinds = {}
    for r in recs:
        kinds[r['kind']] = kinds.get(r['kind'], 0) + 1
    calls = sum(len(r['res']) for r in recs if r['kind'] == 'prod')
    common.write_evidence(
        'C03', tier, 'model_checking',
        {
            'states': st['distinct'] + model['distinct'],
            'transitions': st['generated'] + model['generated'],
            'traces_validated_against_impl': len(recs),
            'samples': [common.trim({k: x for k, x in recs[j].items()
                                     if not k.startswith('_')}, 600)
                        for j in (0, n_exh - 1, n_prod - 1, n_prod + 5, len(recs) - 1)],
            'evaluations': calls + len(recs) - kinds['prod'],
            'distinct_nontrivial': len(recs) - 1,
            'rule': 'prod: all ordered pairs of operators on n <= %d qubits x '
                    'representation pairs (list, 1-D/2-D ndarray of 7 integer '
                    'dtypes, csr), stacks, random stacks with n up to 600 at '
                    'densities 0.01/0.5/0.99 (overlap > 255); conv: every '
                    'operator on n <= %d and random ones up to n = 300; '
                    'non-trivial = not both identity' % (nmax, 3 if tier == 'quick' else 4),
            'records_by_kind': kinds, 'bs_prod_calls': calls,
            'model_states': model['distinct'],
            'exhaustive': True,
        },
        time.time() - t0, len(v.violations),
        assumptions=['input strings for pauli_to_bsf are built by the harness '
                     'from the operator letters'])
    print(f'C03 {tier}: {len(recs)} records ({kinds}), {calls} bs_prod calls, '
          f'{len(rejects)} rejected, {time.time()-t0:.1f}s')
    return rc


def main():
    tier = sys.argv[1] if len(sys.argv) > 1 else 'quick'
    common.main_wrapper(lambda: run(tier))


if __name__ == '__main__':
    main()
