"""C10 - sweep decoders track the true residual syndrome.

model: Sweep_Model.tla explores the automaton on a small exported lattice:
Tracks/CleanExit are invariant with the "toggle" update and refuted with
"assign" (negative control).
code -> spec: (a) geometry - flip_edge(e, zeros) for EVERY edge of every
supported lattice of every sweep decoder, judged against Sweep!Boundary;
(b) automaton - sweep_move / flip_edge are wrapped from outside and every
sweep of every decode (exhaustive low-weight Z errors + random Z errors, tie
break seeds) is logged and replayed through Sweep.tla; every state is judged
against Tracks / CleanExit / Z-only.
"""
import itertools
import json
import os
import sys
import time
import concurrent.futures

import numpy as np

from . import codes, common
from panqec.decoders import SweepDecoder3D, RotatedSweepDecoder3D
from panqec.error_models import PauliErrorModel

HOME = {
    'SweepDecoder3D': (SweepDecoder3D, ['Toric3DCode', 'Planar3DCode']),
    'RotatedSweepDecoder3D': (RotatedSweepDecoder3D, ['RotatedPlanar3DCode', 'RotatedToric3DCode']),
}


def lattices(tier):
    out = []
    for dname, (_, cnames) in HOME.items():
        for cname in cnames:
            ms = 3 if tier == 'quick' else 4
            ss = codes.sizes(cname, ms, max_n=110 if tier == 'quick' else 200, min_n=6)
            ss = [s for s in ss if min(s) >= 2 or cname != 'Toric3DCode']
            if tier == 'quick':
                cubic = [s for s in ss if len(set(s)) == 1]
                non = [s for s in ss if len(set(s)) == 3] or [s for s in ss if len(set(s)) > 1]
                two = [s for s in ss if len(set(s)) == 2]
                ss = cubic[-1:] + non[-1:] + two[:1] + two[-1:]
                for extra in ((2, 3, 3), (3, 2, 3), (3, 3, 2), (2, 3, 2)):
                    if extra in two or extra in non:
                        ss.append(extra)
            out += [(dname, cname, s) for s in dict.fromkeys(ss)]
    return out


def stabs_of(code):
    return codes.rows_to_ops(code.stabilizer_matrix, code.n)


def faces_of(code):
    return [i for i, loc in enumerate(code.stabilizer_coordinates)
            if code.stabilizer_type(tuple(loc)) == 'face']


@common.safe
def geometry(item):
    dname, cname, size = item
    code = codes.build(cname, size)
    dec = HOME[dname][0](code, PauliErrorModel(0, 0, 1), 0.1)
    m = code.stabilizer_matrix.shape[0]
    tog = []
    for q, loc in enumerate(code.qubit_coordinates):
        signs = np.zeros(m, dtype=np.uint8)
        raised = ''
        try:
            dec.flip_edge(tuple(loc), signs)
        except Exception as ex:
            raised = f'{type(ex).__name__}: {ex}'[:80]
        tog.append([q, [int(i) for i in np.nonzero(signs)[0]], raised])
    return {'kind': 'geometry', 'n': int(code.n), 'stabs': stabs_of(code), 'faces': faces_of(code),
            'toggles': tog, 'steps': [], 'signs0': [], 'err': [], 'returned': {'x': [], 'z': []},
            'raised': '',
            '_label': f'{dname}@{cname}{tuple(size)}', '_dec': dname, '_code': cname,
            '_size': size, '_cost': code.n * m}


def logged_decode(dec, code, err_z, qidx):
    """One decode with sweep_move / flip_edge wrapped from outside."""
    n = code.n
    e = np.zeros(2 * n, dtype=np.uint8)
    e[n + np.array(sorted(err_z), dtype=int)] = 1
    # the measured syndrome in the array types callers pass: what
    # measure_syndrome returns (uint8), a boolean array, int64 (from JSON)
    dt = (np.uint8, bool, np.int64, np.uint8)[(len(err_z) + sum(int(q) for q in err_z)) % 4]
    syndrome = np.asarray(code.measure_syndrome(e)).ravel().astype(dt)
    steps = []
    flips = []
    stutter = [0]
    real_flip, real_move = dec.flip_edge, dec.sweep_move

    def flip(location, signs):
        flips.append(qidx[tuple(int(x) for x in location)])
        return real_flip(location, signs)

    def move(signs, correction, *a):
        del flips[:]
        before = np.asarray(signs).copy()
        out = real_move(signs, correction, *a)
        if not flips and np.array_equal(np.asarray(out), before):
            stutter[0] += 1          # no state change: a stuttering step
            return out
        steps.append({'flips': sorted(flips) if len(set(flips)) == len(flips) else list(flips),
                      'signs': [int(i) for i in np.nonzero(np.asarray(out))[0]],
                      'corr': sorted(qidx[tuple(int(x) for x in loc)] for loc in correction.keys()),
                      'letters': sorted(set(correction.values()))})
        return out

    dec.flip_edge, dec.sweep_move = flip, move
    signs0 = dec.get_initial_state(syndrome)
    raised, ret = '', {'x': [], 'z': []}
    try:
        c = np.asarray(dec.decode(syndrome)).ravel()
        ret = codes.bsf_to_op(c, n)
    except Exception as ex:
        raised = f'{type(ex).__name__}: {ex}'[:100]
    finally:
        dec.flip_edge, dec.sweep_move = real_flip, real_move
    return {'signs0': [int(i) for i in np.nonzero(np.asarray(signs0))[0]],
            'steps': steps, 'returned': ret, 'raised': raised,
            '_stutter': stutter[0]}


@common.safe
def runs(item):
    dname, cname, size, tier, part, nparts = item
    code = codes.build(cname, size)
    n = code.n
    qidx = {tuple(int(x) for x in loc): i for i, loc in enumerate(code.qubit_coordinates)}
    st = stabs_of(code)
    fc = faces_of(code)
    rng = np.random.default_rng(common.seed() + 17 * part + n)
    errs = [()] if part == 0 else []
    singles = [(q,) for q in range(n)]
    errs += singles[part::nparts]
    if tier != 'quick' and n <= 60:
        pairs = list(itertools.combinations(range(n), 2))
        errs += pairs[part::nparts]
    elif n <= 40:
        pairs = list(itertools.combinations(range(n), 2))
        errs += [pairs[int(j)] for j in rng.permutation(len(pairs))[:30]]
    rates = [0.05, 0.15] if tier == 'quick' else [0.02, 0.08, 0.2]
    nrand = 6 if tier == 'quick' else 20
    for p in rates:
        for _ in range(nrand):
            errs.append(tuple(int(q) for q in np.nonzero(rng.random(n) < p)[0]))
    out = []
    # the noise model the decoder is built for: the automaton is the same whatever it is.
    # With a deformed model only Z errors inside the model's support are decoded (a pure X
    # channel, XZZX-deformed, puts Z errors on the qubits of the deformed axis)
    dnames = getattr(type(code), 'deformation_names', []) or []
    models = [PauliErrorModel(0, 0, 1), PauliErrorModel(1 / 3, 1 / 3, 1 / 3)]
    if 'XZZX' in dnames:
        models.append(PauliErrorModel(1, 0, 0, deformation_name='XZZX'))
        models.append(PauliErrorModel(0.9, 0, 0.1, deformation_name='XZZX'))
    supports = []
    for em_ in models:
        pd_ = em_.probability_distribution(code, 0.1)
        supports.append({int(q) for q in np.nonzero((np.asarray(pd_[2]) > 0) | (np.asarray(pd_[3]) > 0))[0]})
    for k, err in enumerate(errs):
        seed = k % (2 if tier == 'quick' else 5)
        mi = (k // 2) % len(models)
        if not {int(q) for q in err} <= supports[mi]:
            mi = 0
        dec = HOME[dname][0](code, models[mi], 0.1, seed=seed)
        log = logged_decode(dec, code, err, qidx)
        log.update({'kind': 'run', 'n': int(n), 'stabs': st, 'faces': fc, 'err': [int(q) for q in err],
                    'toggles': [],
                    '_label': f'{dname}@{cname}{tuple(size)}', '_dec': dname, '_code': cname,
                    '_size': size, '_seed': seed, '_cost': (len(log['steps']) + 1) * n})
        out.append(log)
    return out


@common.safe
def interleaved(item):
    """Both lattice types of one decoder class, same dimensions, through
    geometry and a few runs in ONE process, A then B then A again."""
    dname, cnames, size, tier = item
    out = []
    for rnd, cname in enumerate([cnames[0], cnames[1], cnames[0]]):
        if not codes.in_family(cname, tuple(size)):
            continue
        # a few decodes first (they fill whatever the decoder remembers) ...
        rs = runs((dname, cname, tuple(size), 'quick', rnd, 3))
        g = geometry((dname, cname, tuple(size)))
        for r in (rs if isinstance(rs, list) else [rs]) + [g]:
            if isinstance(r, dict) and '_label' in r:
                r['_label'] += f' (interleaved with {cnames[1 - (rnd % 2)]}, round {rnd})'
            out.append(r)
    return out


def eval_traces(recs):
    work = common.scratch_dir('c10')
    # group records by lattice so that the (large) stabs are not repeated
    # needlessly across shards: shard = contiguous slices
    order = sorted(recs, key=lambda r: -r.get('_cost', 1))
    nsh = min(14, len(order))
    parts = [order[i::nsh] for i in range(nsh)]

    def one(idx):
        d = os.path.join(work, f's{idx}')
        os.makedirs(d, exist_ok=True)
        f = os.path.join(d, 'data.json')
        with open(f, 'w') as fh:
            json.dump([common.sanitize({k: v for k, v in r.items() if not k.startswith('_')})
                       for r in parts[idx]], fh)
        return idx, common.run_tlc('Sweep_Trace', env={'VERIF_DATA': f}, workers=1,
                                   workdir=d, timeout=3000, heap='3g')
    rej = {}
    gen = dis = 0
    with concurrent.futures.ThreadPoolExecutor(max_workers=16) as ex:
        for idx, r in ex.map(one, range(len(parts))):
            common.require_ok(r, 'Sweep_Trace')
            pr = common.printed(r['stdout'])
            want = sum(len(t['steps']) + 1 for t in parts[idx])
            got = [x for x in pr if x[0] == 'CHECKED']
            if not got or got[-1][1] != want:
                raise common.MachineryError(f'Sweep_Trace judged {got[-1][1] if got else None} '
                                            f'of {want} states\n' + r['stdout'][-1200:])
            for x in pr:
                if x[0] == 'REJECT':
                    rej.setdefault(x[1], [])
                    rej[x[1]] += x[2]
            gen += r['generated']
            dis += r['distinct']
    common.cleanup(work)
    return rej, {'generated': gen, 'distinct': dis}


def model(tier):
    """Sweep_Model on Toric3D(2,2,2) (periodic) data."""
    code = codes.build('Toric3DCode', (2, 2, 2))
    work = common.scratch_dir('c10m')
    f = os.path.join(work, 'data.json')
    with open(f, 'w') as fh:
        json.dump([{'id': 0, 'n': int(code.n), 'stabs': stabs_of(code), 'faces': faces_of(code)}], fh)
    ok = common.run_tlc('Sweep_Model', cfg='Sweep_Model_toggle.cfg', env={'VERIF_DATA': f},
                        workers=16, workdir=os.path.join(work, 'a'), timeout=1500, heap='8g')
    common.require_ok(ok, 'Sweep_Model toggle')
    if ok['violation']:
        raise common.MachineryError('Sweep_Model(toggle) violated:\n' + ok['stdout'][-1200:])
    neg = common.run_tlc('Sweep_Model', cfg='Sweep_Model_assign.cfg', env={'VERIF_DATA': f},
                         workers=8, workdir=os.path.join(work, 'b'), timeout=1500, heap='8g')
    common.require_ok(neg, 'Sweep_Model assign')
    if not neg['violation']:
        raise common.MachineryError('negative control Sweep_Model(assign) not refuted')
    common.cleanup(work)
    # the sweep RULE on the native 3-D toric lattice: every weight-1 Z error is
    # cleared within the sweep budget whatever the tie-breaks (C09's guarantee)
    cfgs = ['SweepToric3D_333.cfg'] + (['SweepToric3D_343.cfg', 'SweepToric3D_222.cfg']
                                       if tier != 'quick' else [])
    for cfg in cfgs:
        r = common.run_tlc('SweepToric3D', cfg=cfg, workers=16, timeout=2000, heap='8g')
        common.require_ok(r, cfg)
        if r['violation']:
            raise common.MachineryError(f'{cfg}: native sweep-rule model violated:\n'
                                        + r['stdout'][-1200:])
        ok['distinct'] += r['distinct']
        ok['generated'] += r['generated']
    if tier != 'quick':
        r = common.run_tlc('SweepToric3D', cfg='SweepToric3D_neg.cfg', workers=16, timeout=2000, heap='8g')
        common.require_ok(r, 'SweepToric3D_neg')
        if not r['violation']:
            raise common.MachineryError('negative control SweepToric3D(assign) not refuted')
    return ok


def key_of(r, clauses):
    # a finding is identified by the call site: (decoder class, lattice class)
    # and whether the geometry (flip_edge) or the automaton run is rejected
    return f"C10:{r['_dec']}@{r['_code']}:" + ('geometry' if r['kind'] == 'geometry' else 'automaton')


def run(tier):
    t0 = time.time()
    v = common.Verdict('C10')
    m = model(tier)
    lats = lattices(tier)
    geo = common.pmap(geometry, lats, procs=15)
    nparts = 4
    jobs = [(d, c, s, tier, part, nparts) for (d, c, s) in lats for part in range(nparts)]
    rr = common.pmap(runs, jobs, procs=15)
    ijobs = [('SweepDecoder3D', ['Planar3DCode', 'Toric3DCode'], (3, 3, 3), tier),
             ('SweepDecoder3D', ['Toric3DCode', 'Planar3DCode'], (2, 3, 3), tier),
             ('RotatedSweepDecoder3D', ['RotatedPlanar3DCode', 'RotatedToric3DCode'], (2, 2, 2), tier)]
    for x in common.pmap(interleaved, ijobs, procs=3):
        rr.append(x if isinstance(x, list) else [x])
    recs = common.split_raised('C10', v, geo)
    for x in rr:
        if isinstance(x, dict):
            recs += common.split_raised('C10', v, [x])
        else:
            recs += common.split_raised('C10', v, x)
    for j, r in enumerate(recs):
        r['id'] = j
    rej, st = eval_traces(recs)
    for r in recs:
        if r['id'] in rej:
            cl = rej[r['id']]
            first = sorted(int(c.split('@')[1]) for c in cl)[0]
            v.reject(key_of(r, cl),
                     {'case': r['_label'], 'kind': r['kind'], 'seed': r.get('_seed'),
                      'z_error_edges': r['err'], 'failed': sorted(set(cl))[:8],
                      'first_bad_step': first,
                      'step': (r['steps'][first - 1] if r['kind'] == 'run' and first >= 1 else None),
                      'bad_edges': ([t for t in r['toggles']][:3] if r['kind'] == 'geometry' else None)})
    def _corrupt(r):
        if r['kind'] != 'run' or r['id'] in rej or not r['steps'] or not r['steps'][0]['flips']:
            return None
        r['steps'][0]['flips'] = r['steps'][0]['flips'][1:]
        return r
    common.binding_selftest('c10', 'Sweep_Trace', recs, _corrupt, evaluator=eval_traces)
    rc = v.finish()
    n_runs = len([r for r in recs if r['kind'] == 'run'])
    n_steps = sum(len(r['steps']) for r in recs)
    n_edges = sum(len(r['toggles']) for r in recs)
    common.write_evidence(
        'C10', tier, 'model_checking',
        {
            'states': st['distinct'] + m['distinct'], 'transitions': st['generated'] + m['generated'],
            'traces_validated_against_impl': n_runs,
            'samples': [{'lattice': r['_label'], 'z_error_edges': r['err'], 'sweeps': len(r['steps']),
                         'first_step': r['steps'][0] if r['steps'] else None}
                        for r in [x for x in recs if x['kind'] == 'run'][::max(1, n_runs // 5)][:6]],
            'evaluations': n_steps + n_edges,
            'distinct_nontrivial': len({(r['_label'], tuple(r['err']), r.get('_seed')) for r in recs
                                        if r['kind'] == 'run' and r['steps']}),
            'rule': 'geometry: every edge of every home lattice (both sweep '
                    'decoders; cubic and non-cubic sizes); automaton: every '
                    'sweep of every decode over all single-edge Z errors, '
                    'pairs (all on small lattices in the thorough tier) and '
                    'random Z errors at several rates, tie-break seeds; '
                    'non-trivial = run with at least one sweep',
            'lattices': len(lats), 'edges_probed': n_edges, 'decodes': n_runs,
            'sweep_steps_judged': n_steps, 'model_states': m['distinct'],
            'negative_control_refuted': True, 'exhaustive': False,
        },
        time.time() - t0, len(v.violations),
        assumptions=['sweep_move and flip_edge are wrapped on the instance; '
                     'the correction dictionary is read after each sweep'])
    print(f'C10 {tier}: {len(lats)} lattices, {n_edges} edges, {n_runs} decodes, '
          f'{n_steps} sweeps judged, {len(rej)} records rejected, {time.time()-t0:.1f}s')
    return rc


def main():
    tier = sys.argv[1] if len(sys.argv) > 1 else 'quick'
    common.main_wrapper(lambda: run(tier))


if __name__ == '__main__':
    main()
