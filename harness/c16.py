"""C16 - threshold estimation recovers a planted finite-size-scaling threshold.

model: Threshold.tla owns the documented ansatz in exact integer arithmetic
(nu = 1), the box of well-conditioned planted cases, the layouts (row orders,
splits over files, path orders) and the case analysis of get_fit_status;
Threshold_Model.tla checks them (conditioning, monotone curves crossing at
p_th only, success <=> plausible on 25 600 entries) and emits the domain.
spec -> code: every emitted case is materialised as real result files whose
logical error rates lie on the ansatz, in every layout; the REAL
Analysis(...).calculate_thresholds() estimates the threshold; the REAL
Analysis.get_fit_status is called on every emitted entry.
verdict: C16_Data.tla (TLC) judges the reported numbers (1e-6 integers)
against C16's clauses.  The optimiser (scipy curve_fit + bootstrap) is
observed, not modelled.
"""
import contextlib
import gzip
import io
import json
import math
import os
import shutil
import sys
import time
import warnings

import numpy as np

from . import common

NAN = -999999999
S = 1_000_000


def to_int(x):
    try:
        x = float(x)
    except Exception:
        return NAN
    if math.isnan(x) or math.isinf(x) or abs(x) > 2000:
        return NAN
    return int(round(x * S))


_SIMS = {}


def sim_inputs(family, d, p, direction=(1 / 3, 1 / 3, 1 / 3)):
    """inputs block of a real DirectSimulation (what a results file records)."""
    key = (family, d, p, direction)
    if key not in _SIMS:
        from panqec import codes as pc
        from panqec.error_models import PauliErrorModel
        from panqec.decoders import MatchingDecoder
        from panqec.simulation import DirectSimulation
        from panqec.utils import NumpyEncoder
        code = getattr(pc, family)(d, d)
        em = PauliErrorModel(*direction)
        dec = MatchingDecoder(code, em, p)
        sim = DirectSimulation(code, em, dec, p, verbose=False)
        _SIMS[key] = (json.loads(json.dumps(sim._inputs, cls=NumpyEncoder)), 2 * code.k)
    return _SIMS[key]


def planted_counts(c):
    """Failed trials per (distance, rate): n * (A + B x + C x^2)."""
    pth = c['pth'] / 1e4
    nu = c['nu'] / 100
    A, B, C = c['A'] / 100, c['B'] / 100, c['C'] / 100
    out = []
    for d in c['ds']:
        row = []
        for off in c['offs']:
            p = pth * (1000 + off) / 1000
            x = (p - pth) * d ** nu
            row.append(int(round(c['n'] * (A + B * x + C * x * x))))
        out.append(row)
    return out


COMPANION_DIRECTION = (0.1, 0.1, 0.8)


def record(c, d, off, n, nfail, direction=(1 / 3, 1 / 3, 1 / 3), out_of_codespace=0):
    p = round(c['pth'] * (1000 + off) / 1e7, 9)
    inputs, width = sim_inputs(c['family'], d, p, direction)
    bad = [1] + [0] * (width - 1)
    good = [0] * width
    k = min(nfail, out_of_codespace)      # failed trials that ended outside the code space
    return {'results': {'n_runs': n, 'wall_time': 0.001 * n,
                        'effective_error': [good] * k + [bad] * (nfail - k) + [good] * (n - nfail),
                        'success': [False] * nfail + [True] * (n - nfail),
                        'codespace': [False] * k + [True] * (n - k)},
            'inputs': inputs}


def write_gz(path, recs):
    os.makedirs(os.path.dirname(path), exist_ok=True)
    with gzip.open(path, 'wb') as f:
        f.write(json.dumps(recs).encode())


def materialise(c, counts, layout, work):
    n = c['n']
    rows = [(d, off, counts[j][m]) for j, d in enumerate(c['ds']) for m, off in enumerate(c['offs'])]
    m_ = len(rows)
    a, b = layout['a'], layout['b']
    order = sorted(range(m_), key=lambda i: ((a * i + b) % m_, i))
    rows = [rows[i] for i in order]
    kind = layout['kind']
    if kind == 'one_file':
        p = os.path.join(work, 'results.json.gz')
        write_gz(p, [record(c, d, off, n, nf) for d, off, nf in rows])
        return p
    if kind == 'with_queued_simulation':
        # a simulation of a further distance that has not run a single trial yet
        # (BatchSimulation writes every queued simulation to the results file)
        p = os.path.join(work, 'results.json.gz')
        recs_ = [record(c, d, off, n, nf) for d, off, nf in rows]
        recs_.append(record(c, max(c['ds']) + 2, 0, 0, 0))
        write_gz(p, recs_)
        return p
    if kind == 'out_of_codespace':
        p = os.path.join(work, 'results.json.gz')
        dmax = max(c['ds'])
        write_gz(p, [record(c, d, off, n, nf, out_of_codespace=(nf * d) // (2 * dmax))
                     for d, off, nf in rows])
        return p
    if kind == 'files':
        k = layout['parts']
        paths = []
        for part in range(k):
            p = os.path.join(work, f'run_{part}', 'results.json.gz')
            write_gz(p, [record(c, d, off, n, nf) for d, off, nf in rows[part::k]])
            paths.append(p)
        if a == 5:
            return work                       # the directory holding all of them
        return paths[::-1] if a < 0 else paths
    if kind == 'split_trials':
        n1 = (2 * n) // 5
        first, second = [], []
        for d, off, nf in rows:
            f1 = min(nf // 3, n1)
            first.append(record(c, d, off, n1, f1))
            second.append(record(c, d, off, n - n1, nf - f1))
        p1 = os.path.join(work, 'run_0', 'results.json.gz')
        p2 = os.path.join(work, 'run_1', 'results.json.gz')
        write_gz(p1, first)
        write_gz(p2, second)
        return [p2, p1] if a < 0 else [p1, p2]
    raise common.MachineryError(f'unknown layout {layout}')


def companion_file(c, comp, work):
    """Result files of ANOTHER parameter set (same code family and decoder,
    another noise model, its own planted threshold) next to the case's own."""
    counts = planted_counts(comp)
    rows = [(d, off, counts[j][m]) for j, d in enumerate(comp['ds']) for m, off in enumerate(comp['offs'])]
    p = os.path.join(work, 'companion', 'results.json.gz')
    write_gz(p, [record(comp, d, off, comp['n'], nf, COMPANION_DIRECTION) for d, off, nf in rows])
    return p


def estimate(paths, mode='all', window=None, own_noise_only=False):
    from panqec.analysis import Analysis
    out = {'raised': '', 'mode': mode}
    try:
        with contextlib.redirect_stdout(io.StringIO()), warnings.catch_warnings():
            warnings.simplefilter('ignore')
            an = Analysis(paths, verbose=False)
            if mode == 'override':
                df = an.get_results()
                key = tuple(df[['code', 'error_model_label', 'decoder_label']]
                            .drop_duplicates().values[0])
                an.overrides['total'][key] = {'error_rate': {'min': window[0], 'max': window[1]}}
            an.calculate_thresholds(autotruncate=(mode == 'auto'))
            th = an.thresholds
        if own_noise_only:
            # two parameter sets were supplied: the row of the case's own noise model
            if len(th) != 2:
                out['raised'] = f'{len(th)} threshold rows for two (code, noise, decoder) sets'
                return out
            th = th[~th['error_model_label'].astype(str).str.contains('r_z=0.8', regex=False)]
        if len(th) != 1:
            out['raised'] = f'{len(th)} threshold rows for one (code, noise, decoder)'
            return out
        r = th.iloc[0]
        out.update(th=to_int(r['p_th_fss']), left=to_int(r['p_th_fss_left']),
                   right=to_int(r['p_th_fss_right']), se=to_int(r['p_th_fss_se']),
                   pl=to_int(r['p_left']), pr=to_int(r['p_right']),
                   status=str(r['fit_status']), found=bool(r['fit_found']))
    except Exception as ex:      # the estimator must not raise on planted data
        import traceback
        tb = traceback.extract_tb(ex.__traceback__)
        where = [f for f in tb if '/panqec/' in f.filename and '/site-packages/' not in f.filename]
        loc = f' at panqec/{where[-1].filename.split("/panqec/")[-1]}:{where[-1].lineno}' if where else ''
        out['raised'] = f'{type(ex).__name__}: {str(ex)[:100]}{loc}'
    if out['raised']:
        out.update(th=NAN, left=NAN, right=NAN, se=NAN, pl=NAN, pr=NAN, status='', found=False)
    return out


def drive(args):
    idx, item, layouts, workroot = args
    c = item['case']
    counts = planted_counts(c)
    runs = []
    for li, lay in enumerate(layouts):
        work = os.path.join(workroot, f'c{idx}_{li}')
        os.makedirs(work, exist_ok=True)
        try:
            paths = materialise(c, counts, lay, work)
            r = estimate(paths)
        finally:
            shutil.rmtree(work, ignore_errors=True)
        r['layout'] = lay
        runs.append(r)
    # the truncation modes, on one layout each
    offs = sorted(c['offs'])
    window = (c['pth'] * (1000 + offs[1]) / 1e7, c['pth'] * (1000 + offs[-2]) / 1e7)
    for mi, mode in enumerate(('auto', 'override')):
        lay = layouts[(idx + mi) % len(layouts)]
        work = os.path.join(workroot, f'c{idx}_m{mi}')
        os.makedirs(work, exist_ok=True)
        try:
            r = estimate(materialise(c, counts, lay, work), mode, window)
        finally:
            shutil.rmtree(work, ignore_errors=True)
        r['layout'] = lay
        runs.append(r)
    # the same files next to those of another parameter set: the estimate of a
    # set must not depend on what else is analysed with it
    comp = item.get('companion')
    if comp is not None:
        work = os.path.join(workroot, f'c{idx}_comp')
        os.makedirs(work, exist_ok=True)
        try:
            own = materialise(c, counts, layouts[0], os.path.join(work, 'own'))
            companion_file(c, comp, work)
            r = estimate(work, 'all', None, own_noise_only=True)
        finally:
            shutil.rmtree(work, ignore_errors=True)
        r['layout'] = {'kind': 'with_another_parameter_set', 'a': 1, 'b': 0, 'parts': 2}
        runs.append(r)
    rec = {'kind': 'planted', 'case': c, 'counts': counts, 'runs': runs,
           '_cost': 5 * len(runs)}
    if comp is not None:
        return [rec] + sector_records(idx, item, workroot)
    return [rec]


def counts_at(c, pth, ps):
    """n * (A + B x + C x^2) per (distance, rate) for a threshold pth (a float)."""
    nu = c['nu'] / 100
    A, B, C = c['A'] / 100, c['B'] / 100, c['C'] / 100
    return [[int(round(c['n'] * (A + B * ((p - pth) * d ** nu) + C * ((p - pth) * d ** nu) ** 2)))
             for p in ps] for d in c['ds']]


def drawn_threshold(an, sector):
    """The threshold plot is the other place where the estimate is reported: the
    positions (1e-6) of the dashed vertical lines that plot_thresholds draws."""
    import matplotlib
    matplotlib.use('Agg')
    import matplotlib.pyplot as plt
    plt.close('all')
    try:
        an.plot_thresholds(sector=sector)
        out = []
        for num in plt.get_fignums():
            for ax in plt.figure(num).axes:
                for ln in ax.lines:
                    xs = list(ln.get_xdata())
                    if len(xs) == 2 and xs[0] == xs[1]:            # a vertical line, whatever its style
                        out.append(to_int(xs[0]))
        return out
    except Exception as ex:
        return [f'{type(ex).__name__}']
    finally:
        plt.close('all')


def sector_records(idx, item, workroot):
    """X and Z logical failures planted on the ansatz with DIFFERENT thresholds
    (biased noise: the two error types cross at different rates): the thresholds
    reported per sector (Analysis.sector_thresholds) must be the planted ones."""
    from panqec.analysis import Analysis
    c = item['case']
    offs = sorted(c['offs'])
    ps = [round(c['pth'] * (1000 + off) / 1e7, 9) for off in c['offs']]
    pth_x = c['pth'] / 1e4
    pth_z = c['pth'] * (1000 + offs[len(offs) // 2 + 1]) / 1e7      # a data rate right of centre
    cx, cz = counts_at(c, pth_x, ps), counts_at(c, pth_z, ps)
    n = c['n']
    work = os.path.join(workroot, f'c{idx}_sector')
    recs_ = []
    for j, d in enumerate(c['ds']):
        for m, off in enumerate(c['offs']):
            inputs, width = sim_inputs(c['family'], d, ps[m], (0.1, 0.1, 0.8))
            if width != 2 or not (0 <= cx[j][m] <= n and 0 <= cz[j][m] <= n):
                return []
            nx, nz = cx[j][m], cz[j][m]
            ee = [[int(t < nx), int(t >= n - nz)] for t in range(n)]
            recs_.append({'results': {'n_runs': n, 'wall_time': 0.001 * n, 'effective_error': ee,
                                      'success': [not (a or b) for a, b in ee], 'codespace': [True] * n},
                          'inputs': inputs})
    rng = np.random.default_rng(idx)
    recs_ = [recs_[i] for i in rng.permutation(len(recs_))]
    out = []
    try:
        write_gz(os.path.join(work, 'results.json.gz'), recs_)
        rows = {}
        raised = ''
        try:
            with contextlib.redirect_stdout(io.StringIO()), warnings.catch_warnings():
                warnings.simplefilter('ignore')
                an = Analysis(work, verbose=False)
                st_ = an.sector_thresholds
                drawn = {}
                for sec in ('X', 'Z'):
                    th = st_[sec]
                    if len(th) != 1:
                        raised = f'{len(th)} threshold rows for sector {sec}'
                    else:
                        rows[sec] = th.iloc[0]
                        drawn[sec] = drawn_threshold(an, sec)
        except Exception as ex:
            raised = f'{type(ex).__name__}: {str(ex)[:100]}'
        for sec, pth in (('X', pth_x), ('Z', pth_z)):
            run_ = {'raised': raised, 'mode': 'all', 'layout': {'kind': 'sector_' + sec}}
            if not raised:
                r = rows[sec]
                run_.update(th=to_int(r['p_th_fss']), left=to_int(r['p_th_fss_left']),
                            right=to_int(r['p_th_fss_right']), se=to_int(r['p_th_fss_se']),
                            pl=to_int(r['p_left']), pr=to_int(r['p_right']),
                            status=str(r['fit_status']), found=bool(r['fit_found']),
                            drawn=drawn[sec])
            else:
                run_.update(th=NAN, left=NAN, right=NAN, se=NAN, pl=NAN, pr=NAN, status='', found=False,
                            drawn=[])
            out.append({'kind': 'sector', 'sector': sec, 'case': c, 'planted': int(round(pth * 1e6)),
                        'onepct': int(round(pth * 1e4)), 'pmin': int(round(min(ps) * 1e6)),
                        'pmax': int(round(max(ps) * 1e6)), 'runs': [run_], '_cost': 5})
    finally:
        shutil.rmtree(work, ignore_errors=True)
    return out


def status_records(entries):
    """The real get_fit_status on every grid entry."""
    from panqec.analysis import Analysis
    work = common.scratch_dir('c16s')
    c = {'pth': 1000, 'nu': 100, 'A': 20, 'B': 150, 'C': 200, 'ds': [5, 7, 9],
         'offs': [-150, -100, -50, 0, 50, 100, 150], 'family': 'RotatedPlanar2DCode', 'n': 200}
    p = materialise(c, planted_counts(c), {'kind': 'one_file', 'a': 1, 'b': 0, 'parts': 1}, work)
    with contextlib.redirect_stdout(io.StringIO()):
        an = Analysis(p, verbose=False)
    common.cleanup(work)

    def val(v):
        return float('nan') if v == NAN else v / S
    out = []
    for it in entries:
        e = it['entry']
        bc = 0.0 if e['bc_zero'] else 1.0
        params = [val(e['th']) if not e['params_nan'] else float('nan'), 1.0, val(e['A']), bc, bc]
        if e['params_nan']:
            params[0] = float('nan')
        elif e['th'] == NAN:
            params[0] = 0.1
        entry = {'fss_params': np.array(params), 'p_th_fss': val(e['th']),
                 'p_th_fss_left': val(e['left']), 'p_th_fss_right': val(e['right']),
                 'p_th_fss_se': 3e-7 if e['se'] == 1 else val(e['se']),      # a tiny but positive uncertainty
                 'p_left': val(e['pl']), 'p_right': val(e['pr'])}
        try:
            with contextlib.redirect_stdout(io.StringIO()):
                obs = str(an.get_fit_status(entry))
        except Exception as ex:
            obs = f'RAISED {type(ex).__name__}: {str(ex)[:80]}'
        out.append({'kind': 'status', 'entry': e, 'observed': obs, '_cost': 1})
    return out


def run(tier):
    t0 = time.time()
    v = common.Verdict('C16')
    work = common.scratch_dir('c16m')
    outf = os.path.join(work, 'domain.json')
    cfg = 'Threshold_Model.cfg' if tier == 'quick' else 'Threshold_Model_thorough.cfg'
    model = common.run_tlc('Threshold_Model', cfg=cfg, env={'VERIF_OUT': outf}, workers=16,
                           workdir=work, timeout=3000)
    common.require_ok(model, 'Threshold_Model')
    if model['violation']:
        raise common.MachineryError('Threshold_Model violated:\n' + model['stdout'][-1500:])
    with open(outf) as f:
        cases, layouts, entries = json.load(f)
    common.cleanup(work)
    cases = sorted(cases, key=lambda it: json.dumps(it['case'], sort_keys=True))
    layouts = sorted(layouts, key=lambda l: (l['kind'] != 'one_file' or l['a'] != 1 or l['b'] != 0,
                                             json.dumps(l, sort_keys=True)))
    rng = np.random.default_rng(common.seed() + 1616)
    # the natural layout first (reference), then the others
    if tier == 'quick':
        kinds = {}
        for l in layouts[1:]:
            kinds.setdefault(l['kind'], []).append(l)
    wroot = common.scratch_dir('c16')
    jobs = []
    for j, it in enumerate(cases):
        # companion: another case of the same family with a different threshold
        others = [o['case'] for o in cases if o['case']['family'] == it['case']['family']
                  and o['case']['pth'] != it['case']['pth']]
        if others and (tier != 'quick' or j % 3 == 0):
            it['companion'] = others[(7 * j) % len(others)]
        if tier == 'quick':
            pick = [layouts[0]] + [ls[int(rng.integers(len(ls)))] for ls in kinds.values()]
            pick.append(layouts[1 + int(rng.integers(len(layouts) - 1))])
        else:
            pick = layouts
        jobs.append((j, it, pick, wroot))
    recs = [r for rs in common.pmap(drive, jobs, procs=16) for r in rs]
    common.cleanup(wroot)
    srecs = status_records(entries if tier != 'quick' else entries[::3])
    allrecs = recs + srecs
    for j, r in enumerate(allrecs):
        r['id'] = j
    rejects, st = common.eval_records('C16_Data', allrecs, 'c16', shards=16)
    for r in allrecs:
        if r['id'] not in rejects:
            continue
        cl = sorted(rejects[r['id']])
        if any(c.startswith('MACHINERY') for c in cl):
            raise common.MachineryError(f'planted data off the ansatz: {r["case"]}')
        if r['kind'] == 'sector':
            c = r['case']
            v.reject(f"C16:sector-threshold:{c['family']}:nu={c['nu']}:{cl[0]}",
                     {'case': c, 'sector': r['sector'], 'planted': r['planted'], 'failed': cl, 'runs': r['runs']})
        elif r['kind'] == 'planted':
            c = r['case']
            bad_layouts = sorted({x['layout']['kind'] for x in r['runs']
                                  if x['raised'] or x['status'] != 'success'}) or ['all']
            v.reject(f"C16:planted:{c['family']}:nu={c['nu']}:{cl[0]}",
                     {'case': c, 'failed': cl, 'runs': r['runs']})
        else:
            v.reject(f"C16:get_fit_status:{cl[0]}:observed={r['observed'][:40]}",
                     {'entry': r['entry'], 'observed': r['observed'], 'failed': cl})
    notes = st.get('notes', [])
    if notes:
        ex = allrecs[notes[0][0]]
        print(f'NOTE: get_fit_status returns another text than the transcription for {len(notes)} '
              f'entries, e.g. {ex["entry"]} -> {ex["observed"]!r} (success flag agrees)')

    def _corrupt(r):
        if r['kind'] != 'planted' or r['runs'][0]['raised']:
            return None
        r['runs'][0]['th'] += 40 * max(r['runs'][0]['right'] - r['runs'][0]['left'], r['case']['pth'])
        return r
    common.binding_selftest('c16', 'C16_Data', [r for r in allrecs if r['id'] not in rejects], _corrupt)
    rc = v.finish()
    nruns = sum(len(r['runs']) for r in recs)
    errs = [abs(x['th'] - r['case']['pth'] * 100) / max(1, (x['right'] - x['left']) / 2) for r in recs
            for x in r['runs'] if not x['raised'] and x['right'] > x['left']]
    common.write_evidence(
        'C16', tier, 'exploration',
        {
            'states': model['distinct'] + st['distinct'],
            'transitions': model['generated'] + st['generated'],
            'traces_validated_against_impl': len(allrecs),
            'planted_cases': len(recs),
            'threshold_estimations_on_the_real_code': nruns,
            'layouts': sorted({x['layout']['kind'] for r in recs for x in r['runs']}),
            'get_fit_status_entries': len(srecs),
            'worst_deviation_in_half_widths_of_the_reported_interval': round(max(errs), 3) if errs else None,
            'median_deviation_in_half_widths_of_the_reported_interval': round(float(np.median(errs)), 3) if errs else None,
            'samples': [{'case': r['case'], 'first_run': {k: x for k, x in r['runs'][0].items()}}
                        for r in recs[::max(1, len(recs) // 4)]],
            'evaluations': nruns + len(srecs),
            'distinct_nontrivial': len(recs),
            'rule': 'box of planted (p_th, nu, A, B, C, distances, rates) filtered by '
                    'Threshold!WellConditioned; 10 000 trials per point; layouts: row '
                    'permutations, 2-3 files, directory vs path list, trials of one '
                    'simulation split over two files',
            'exhaustive': False,
        },
        time.time() - t0, len(v.violations),
        assumptions=['the optimiser is observed, not modelled: only the reported numbers are '
                     'judged', 'tolerance: 5 half-widths of the reported 68% interval or 1% of p_th',
                     'well-conditioned box = Threshold!Box (documented in DESIGN.md)'])
    print(f'C16 {tier}: {len(recs)} planted cases, {nruns} estimations, {len(srecs)} status entries, '
          f'{len(rejects)} rejected, worst deviation {max(errs) if errs else 0:.2f} half-widths, {time.time()-t0:.1f}s')
    return rc


def main():
    tier = sys.argv[1] if len(sys.argv) > 1 else 'quick'
    common.main_wrapper(lambda: run(tier))


if __name__ == '__main__':
    main()
