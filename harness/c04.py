"""C04 - decoding success is declared iff the residual error is a stabilizer.

code -> spec.  For every library code with n <= bound the verdicts of
in_codespace / logical_errors / is_logical_error / is_success and of run_once
are recorded for ALL 4^n Pauli operators; TLC (C04_Data.tla) compares them with
membership in the stabilizer group built as a closure.  Larger codes: basis
vectors, generators, logicals and random products; membership by elimination.
"""
import sys
import time

import numpy as np

from . import codes, common
from panqec.simulation._direct_simulation import run_once


class _Model:
    """Scripted error model: generate() returns the operator under test."""
    def __init__(self):
        self.e = None

    def generate(self, code, error_rate, rng=None):
        return self.e.copy()


class _Null:
    def __init__(self, n):
        self.n = n

    def decode(self, syndrome, **kw):
        return np.zeros(2 * self.n, dtype=np.uint)


def bits(vec):
    return int(sum(1 << p for p, b in enumerate(np.asarray(vec).ravel()) if b))


def tiny_domain(tier):
    lo, hi = (2, 6) if tier == 'quick' else (2, 8)
    out = []
    seen = set()
    for name in codes.CLASSES:
        ms = hi if codes.dimension(name) == 2 else 3
        for size in codes.sizes(name, ms, max_n=hi, min_n=lo):
            if name == 'Color666PlanarCode' and size[1] > 2:
                continue    # same 7-qubit code for every L_y
            for dname, kw in codes.deformation_variants(name):
                if kw == {} and dname is not None and \
                        codes.SUPPORTED[name].get('deformation_axes'):
                    continue   # default axis duplicates an explicit one
                out.append((name, size, dname, kw))
    if tier == 'quick':
        # keep every class/size with n <= 5 and one in three of the n = 6
        keep = []
        cnt = 0
        for it in out:
            n = codes.qubit_count(it[0], it[1])
            if n <= 5:
                keep.append(it)
            else:
                cnt += 1
                if cnt % 3 == 0:
                    keep.append(it)
        out = keep
    return out


def represent(e, t):
    """The operator in the forms callers use: integer dtypes, a sparse row, a
    sparse row carrying explicitly stored zeros (what `r = a + b; r.data %= 2`
    leaves behind), a sparse row with unsorted indices."""
    from scipy.sparse import csr_matrix
    f = t % 7
    if f == 0:
        return e
    if f == 1:
        return e.astype(np.int64)
    if f == 2:
        return e.astype(np.uint64)
    if f == 3:
        return e.astype(np.int8)
    if f == 4:
        return csr_matrix(e.reshape(1, -1))
    if f == 5:
        mask = np.zeros_like(e)
        mask[::2] = 1
        r = (csr_matrix(((e + mask) % 2).reshape(1, -1)) + csr_matrix(mask.reshape(1, -1))).tocsr()
        r.data %= 2
        return r
    nz = np.nonzero(e)[0][::-1]
    return csr_matrix((np.ones(len(nz), dtype=np.uint8), nz.copy(), np.array([0, len(nz)])),
                      shape=(1, e.shape[0]))


@common.safe
def export_all(item):
    name, size, dname, kw = item
    code = codes.build(name, size, dname, kw)
    rec = codes.project(code)
    n, k = code.n, code.k
    N = 4 ** n
    em, dec = _Model(), _Null(n)
    E = np.zeros((N, 2 * n), dtype=np.uint8)
    for q in range(n):
        dig = (np.arange(N) // 4 ** q) % 4
        E[:, q] = (dig == 1) | (dig == 2)
        E[:, n + q] = (dig == 2) | (dig == 3)
    cs, le, ile, suc, rsuc, rcs, rle = [], [], [], [], [], [], []
    for t in range(N):
        e = E[t]
        # the operator in the array types callers use
        ev = represent(e, t)
        cs.append(int(bool(code.in_codespace(ev))))
        le.append(bits(code.logical_errors(ev)))
        ile.append(int(bool(code.is_logical_error(ev))))
        suc.append(int(bool(code.is_success(ev))))
        em.e = e
        r = run_once(code, em, dec, 0.1)
        rsuc.append(int(bool(r['success'])))
        rcs.append(int(bool(r['codespace'])))
        rle.append(bits(r['effective_error']))
    # the stacked (multi-row) call path of logical_errors
    le2 = []
    sizes_cycle = [2, 3, 4, 5, 1, 7, 2, 3, 4, 64]     # includes batch size == k
    a, j = 0, 0
    while a < N:
        step = min(sizes_cycle[j % len(sizes_cycle)], N - a)
        j += 1
        blk = np.asarray(code.logical_errors(E[a:a + step]))
        blk = blk.reshape(-1, 2 * k)
        le2 += [bits(row) for row in blk]
        a += step
    rec.update(mode='all', cs=cs, le=le, le2=le2, ile=ile, suc=suc, rsuc=rsuc,
               rcs=rcs, rle=rle, obs=[])
    rec['_label'] = codes.label(name, size, dname, kw)
    rec['_cost'] = N * (len(rec['stabs']) + 2 * k + 4)
    rec['_nobs'] = N
    return rec


def large_domain(tier):
    out = []
    max_n = 60 if tier == 'quick' else 130
    for name in codes.CLASSES:
        ms = 4 if codes.dimension(name) == 2 else 3
        if name in ('RhombicToricCode', 'HollowRhombicCode'):
            ms = 4
        ss = codes.sizes(name, ms, max_n=max_n, min_n=9)
        if not ss:
            continue
        pick = [ss[0], ss[-1]] if tier == 'quick' else ss[::max(1, len(ss) // 5)]
        # every orientation of a non-cubic lattice: the first size with each
        # strict order between two sides
        for a_, b_ in ((0, 1), (1, 0), (1, 2), (2, 1), (0, 2), (2, 0)):
            if max(a_, b_) < len(ss[0]):
                hit = [s_ for s_ in ss if s_[a_] < s_[b_]]
                if hit:
                    pick.append(hit[0])
        pick = list(dict.fromkeys(pick))
        for size in pick:
            vs = codes.deformation_variants(name)
            for dname, kw in (vs[:1] + vs[-1:]):
                out.append((name, size, dname, kw))
    return list(dict.fromkeys((a, b, c, tuple(sorted(d.items()))) for a, b, c, d in out))


@common.safe
def export_some(item):
    name, size, dname, kwt = item
    kw = dict(kwt)
    code = codes.build(name, size, dname, kw)
    rec = codes.project(code)
    n, k = code.n, code.k
    rng = np.random.default_rng(abs(hash((name, size, dname, kwt))) % 2**31
                                + common.seed())
    H = code.stabilizer_matrix.toarray() % 2
    L = np.vstack([code.logicals_x, code.logicals_z]) % 2
    em, dec = _Model(), _Null(n)
    ops = []     # (vector, base index or 0)
    for c in rng.choice(2 * n, size=min(2 * n, 16), replace=False):
        v = np.zeros(2 * n, dtype=np.uint8)
        v[int(c)] = 1
        ops.append((v, 0))
    for j in rng.choice(H.shape[0], size=min(H.shape[0], 6), replace=False):
        ops.append((H[int(j)].astype(np.uint8), 0))
    for row in L:
        ops.append((row.astype(np.uint8), 0))
    for _ in range(10):
        e0 = (rng.random(2 * n) < 2.0 / n).astype(np.uint8)
        lmask = rng.integers(0, 2, size=L.shape[0])
        e0 = (e0 + lmask @ L) % 2
        if rng.random() < 0.5:
            e0 = (lmask @ L) % 2            # pure product of logicals
        ops.append((e0.astype(np.uint8), 0))
        base = len(ops)
        for _ in range(2):
            smask = rng.integers(0, 2, size=H.shape[0])
            ops.append(((((smask @ H) + e0) % 2).astype(np.uint8), base))
    # stacked calls on the same operators, batch sizes k, k + 1, 2
    V = np.array([v for v, _ in ops], dtype=np.uint8)
    stacked = {}
    for bsz in (max(k, 2), k + 1, 2):
        for a0 in range(0, len(V) - bsz + 1, bsz):
            blk = np.asarray(code.logical_errors(V[a0:a0 + bsz])).reshape(-1, 2 * k)
            for off in range(bsz):
                stacked.setdefault(a0 + off, []).append(
                    [int(p) for p in np.nonzero(blk[off])[0]])
    obs = []
    for v, base in ops:
        em.e = v
        r = run_once(code, em, dec, 0.1)
        obs.append({
            'e': codes.bsf_to_op(v, n),
            'cs': bool(code.in_codespace(v)),
            'le': [int(p) for p in np.nonzero(np.asarray(code.logical_errors(v)).ravel())[0]],
            'ile': bool(code.is_logical_error(v)),
            'suc': bool(code.is_success(v)),
            'rsuc': bool(r['success']),
            'base': int(base),
            'le_stacked': stacked.get(len(obs), []),
        })
    rec.update(mode='some', obs=obs, cs=[], le=[], le2=[], ile=[], suc=[],
               rsuc=[], rcs=[], rle=[])
    rec['_label'] = codes.label(name, size, dname, kw)
    rec['_cost'] = len(obs) * n * len(rec['stabs'])
    rec['_nobs'] = len(obs)
    return rec


def run(tier):
    t0 = time.time()
    v = common.Verdict('C04')
    tiny = tiny_domain(tier)
    recs = common.pmap(export_all, tiny)
    recs += common.pmap(export_some, large_domain(tier))
    recs = common.split_raised('C04', v, recs)
    for j, r in enumerate(recs):
        r['id'] = j
    t_export = time.time() - t0
    rejects, st = common.eval_records('C04_Data', recs, 'c04', shards=16,
                                      heap='4g')
    for r in recs:
        if r['id'] in rejects:
            v.reject(f"C04:{r['_label']}",
                     {'label': r['_label'], 'mode': r['mode'],
                      'failed_clauses': rejects[r['id']]})
    def _corrupt(r):
        if r['mode'] != 'all' or r['n'] > 5:
            return None
        r['suc'][1] = 1 - r['suc'][1]
        return r
    common.binding_selftest('c04', 'C04_Data', [r for r in recs if r['id'] not in rejects], _corrupt)
    rc = v.finish()
    n_all = sum(r['_nobs'] for r in recs if r['mode'] == 'all')
    n_some = sum(r['_nobs'] for r in recs if r['mode'] == 'some')
    common.write_evidence(
        'C04', tier, 'model_checking',
        {
            'states': st['distinct'], 'transitions': st['generated'],
            'traces_validated_against_impl': len(recs),
            'samples': [{'label': r['_label'], 'mode': r['mode'], 'n': r['n'],
                         'k': r['k'], 'operators_judged': r['_nobs']}
                        for r in recs[::max(1, len(recs) // 12)]],
            'evaluations': n_all + n_some,
            'distinct_nontrivial': n_all + n_some - len(recs),
            'rule': 'mode all: every one of the 4^n Pauli operators of a code '
                    'with n <= bound (distinct by construction; non-trivial = '
                    'not the identity); mode some: basis vectors, generators, '
                    'logicals, random stabilizer*logical*error products on '
                    'larger codes',
            'codes_exhaustive': len([r for r in recs if r['mode'] == 'all']),
            'codes_sampled': len([r for r in recs if r['mode'] == 'some']),
            'operators_exhaustive': n_all, 'operators_sampled': n_some,
            'export_s': round(t_export, 1), 'tlc_s': round(st['wall_s'], 1),
            'exhaustive': True,
        },
        time.time() - t0, len(v.violations),
        assumptions=['run_once is driven with a scripted error model and a '
                     'null decoder so that the residual error is the operator '
                     'under test'])
    print(f'C04 {tier}: {len(recs)} codes, {n_all}+{n_some} operators, '
          f'{len(rejects)} rejected, {time.time()-t0:.1f}s')
    return rc


def main():
    tier = sys.argv[1] if len(sys.argv) > 1 else 'quick'
    common.main_wrapper(lambda: run(tier))


if __name__ == '__main__':
    main()
