"""C19 - generated input files cover exactly the requested parameter grid.

model: GenInput_Model.tla enumerates argument combinations, checks the
arithmetic (directions sum to one, inclusive progression) and emits them with
the expected rates/directions.
spec -> code: each combination is run through the real `panqec generate-input`
command (click CliRunner, temporary directory); every file under inputs/ is
read back with read_input_json and projected; TLC (C19_Data.tla) judges the
union against GenInput!Requested.
"""
import contextlib
import glob
import io
import json
import os
import shutil
import sys
import time
import zlib
from fractions import Fraction

from click.testing import CliRunner

from . import common
from panqec.cli import cli
from panqec.simulation import read_input_dict

TOL = 1e-9


def dec(units):
    s = f'{units / 1000:.3f}'.rstrip('0').rstrip('.')
    return s if s else '0'


def eta_str(e, spelling=0):
    """A bias ratio as a user may type it: inf / Inf / infinity, 3 / 3.0."""
    a, b = e
    if b == 0:
        return ('inf', 'Inf', 'infinity', 'inf')[spelling % 4]
    if a % b == 0:
        return str(a // b) + ('.0' if spelling % 4 == 2 else '')
    return repr(a / b)


def cli_args(a, d):
    v = a['variant']
    args = ['generate-input', '-d', d,
            '-s', ','.join('x'.join(str(x) for x in s) for s in a['sizes']),
            '--decoder_class', v['decoder'], '--bias', a['bias'],
            '--eta', ','.join(eta_str(e, zlib.crc32(json.dumps(a, sort_keys=True, default=str).encode()) // 7 + j)
                              for j, e in enumerate(a['etas'])),
            '--code_class', v['code'], '--noise_class', 'PauliErrorModel',
            '-m', v['method']]
    p = a['prob']
    if p['kind'] == 'single':
        args += ['--prob', dec(p['vals'][0])]
    elif p['kind'] == 'list':
        args += ['--prob', ','.join(dec(x) for x in p['vals'])]
    elif p['step'] == 5 and zlib.crc32(json.dumps(a, sort_keys=True, default=str).encode()) % 3 != 0:
        # 0.005 is the documented default step: the range may be written min:max
        args += ['--prob', f"{dec(p['min'])}:{dec(p['max'])}"]
    else:
        args += ['--prob', f"{dec(p['min'])}:{dec(p['max'])}:{dec(p['step'])}"]
    if v['deformation']:
        args += ['--deformation_name', v['deformation']]
    if a['label']:
        args += ['-l', a['label']]
    return args


def match_eta(direction, dirs):
    rx, ry, rz = (float(x) for x in direction)
    if abs(rx + ry + rz - 1) > TOL:
        return 0
    for j, dspec in enumerate(dirs):
        ex = [Fraction(*dspec[k]) for k in ('x', 'y', 'z')]
        if all(abs(float(e) - r) <= TOL for e, r in zip(ex, (rx, ry, rz))):
            return j + 1
    return 0


def match_size(code, full_sizes, dim):
    size = [code.L_x, code.L_y] + ([code.L_z] if dim == 3 else [])
    for j, fs in enumerate(full_sizes):
        if list(fs[:dim]) == [int(x) for x in size]:
            return j + 1
    return 0


def units(rate):
    u = round(rate * 1000)
    return int(u) if abs(rate - u / 1000) <= TOL else -1


def drive(item):
    a, exp = item['args'], item['expected']
    work = common.scratch_dir('c19')
    rec = {'args': a, 'files': [], 'raised': ''}
    try:
        runner = CliRunner()
        res = runner.invoke(cli, cli_args(a, work))
        if res.exit_code != 0:
            rec['raised'] = f'exit {res.exit_code}: {res.exception!r}'[:200]
            return rec
        dim = a['variant']['dim']
        blocks = []
        for f in sorted(glob.glob(os.path.join(work, 'inputs', '*.json'))):
            with open(f) as fh:
                data = json.load(fh)
            # one specification = one "ranges" block (a file may hold a list)
            if isinstance(data.get('ranges'), list):
                for sub in data['ranges']:
                    blocks.append(dict(data, ranges=sub))
            else:
                blocks.append(data)
        for data in blocks:
            with contextlib.redirect_stdout(io.StringIO()):
                batch = read_input_dict(data, os.path.join(work, 'out.json'),
                                        verbose=False)
            sims = []
            for sim in batch._simulations:
                si = match_size(sim.code, exp['full_sizes'], dim)
                if type(sim.code).__name__ != a['variant']['code']:
                    si = 0
                ei = match_eta(sim.error_model.direction, exp['dirs'])
                want_def = a['variant']['deformation'] or None
                if sim.error_model.params.get('deformation_name') != want_def:
                    ei = 0
                rates = getattr(sim, 'error_rates', None)
                rates = [sim.error_rate] if rates is None else list(rates)
                dname = type(getattr(sim, 'decoder', None) or sim.decoders[0]).__name__
                if dname != a['variant']['decoder']:
                    si = 0
                for r in rates:
                    sims.append([si, ei, units(float(r))])
            rec['files'].append(sims)
    except Exception as ex:
        rec['raised'] = f'{type(ex).__name__}: {ex}'[:200]
    finally:
        shutil.rmtree(work, ignore_errors=True)
    return rec


def run(tier):
    t0 = time.time()
    v = common.Verdict('C19')
    work = common.scratch_dir('c19m')
    out = os.path.join(work, 'args.json')
    cfg = 'GenInput_Model.cfg' if tier == 'quick' else 'GenInput_Model_thorough.cfg'
    model = common.run_tlc('GenInput_Model', cfg=cfg, env={'VERIF_OUT': out},
                           workers=16, workdir=work, timeout=3000)
    common.require_ok(model, 'GenInput_Model')
    if model['violation']:
        raise common.MachineryError('GenInput_Model violated:\n' + model['stdout'][-1500:])
    with open(out) as f:
        items = json.load(f)
    common.cleanup(work)
    recs = common.pmap(drive, items)
    for j, r in enumerate(recs):
        r['id'] = j
        r['_cost'] = sum(len(f) for f in r['files']) ** 2 + 5
    rejects, st = common.eval_records('C19_Data', recs, 'c19', shards=16)
    for r in recs:
        if r['id'] in rejects:
            cl = sorted(rejects[r['id']])
            a = r['args']
            if 'command_or_readback_raised' in cl:
                key = 'C19:raised:' + r['raised'][:80]
            else:
                # key by root cause class + the argument feature that triggers it
                feat = []
                if len(a['etas']) > 1:
                    feat.append('several_bias_ratios')
                if a['prob']['kind'] == 'range':
                    feat.append('range')
                key = 'C19:' + ','.join(cl) + ':' + '+'.join(feat)
            v.reject(key, {'args': a, 'cli': cli_args(a, '<dir>'), 'failed': cl,
                           'files': common.trim(r['files'], 800), 'raised': r['raised']})
    def _corrupt(r):
        if r['raised'] or not r['files'] or not r['files'][0]:
            return None
        r['files'][0].append([r['files'][0][0][0], r['files'][0][0][1], 987])
        return r
    common.binding_selftest('c19', 'C19_Data', [r for r in recs if r['id'] not in rejects], _corrupt)
    rc = v.finish()
    common.write_evidence(
        'C19', tier, 'model_checking',
        {
            'states': model['distinct'] + st['distinct'],
            'transitions': model['generated'] + st['generated'],
            'traces_validated_against_impl': len(recs),
            'samples': [{'cli': cli_args(recs[j]['args'], '<dir>'), 'files': common.trim(recs[j]['files'], 300)}
                        for j in (0, len(recs) // 2, len(recs) - 1)],
            'evaluations': len(recs),
            'distinct_nontrivial': len([r for r in recs if len(r['args']['etas']) > 1 or r['args']['prob']['kind'] == 'range']),
            'rule': 'every argument combination enumerated by GenInput_Model '
                    '(size lists 2-D/3-D written with 1-3 numbers, bias X/Y/Z, '
                    'eta lists incl. inf and non-integers, single/list/'
                    'min:max:step probabilities on a 0.001 grid, decoder / '
                    'deformation / method variants, label); non-trivial = '
                    'several bias ratios or a range',
            'exhaustive': True,
        },
        time.time() - t0, len(v.violations),
        assumptions=[f'floats read back are matched to the specification\'s '
                     f'rationals within {TOL}'])
    print(f'C19 {tier}: {len(recs)} invocations, {len(rejects)} rejected, {time.time()-t0:.1f}s')
    return rc


def main():
    tier = sys.argv[1] if len(sys.argv) > 1 else 'quick'
    common.main_wrapper(lambda: run(tier))


if __name__ == '__main__':
    main()
