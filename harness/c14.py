"""C14 - parallel runs execute exactly the requested trials per input.

model: Parallel.tla - TLC proves the properties for the "remainder" rule on
the whole grid and refutes the snapshot's rule (negative control).
spec -> code: the real `panqec run-parallel` callback is driven for every
configuration of the grid (the grid is the Init predicate of the model) and
every job index, with multiprocessing.Process / cpu_count substituted by a
recorder; TLC (C14_Data.tla) judges the recorded (input, n_runs, result file)
triples against the property.
"""
import contextlib
import io
import os
import shutil
import sys
import time

from . import common
import panqec.cli as cli


class _Proc:
    log = []

    def __init__(self, target=None, args=(), kwargs=None):
        _Proc.log.append(args)

    def start(self):
        pass

    def join(self):
        pass


class _MP:
    def __init__(self, ncpu):
        self._n = ncpu
        self.Process = _Proc

    def cpu_count(self):
        return self._n


def grid(tier):
    mi, mn, mc, mt = (4, 3, 4, 24) if tier == 'quick' else (6, 4, 8, 64)
    out = []
    for I in range(1, mi + 1):
        for N in range(1, mn + 1):
            for C in range(1, mc + 1):
                nt = N * C
                if nt < I:
                    continue
                maxtpi = nt // I + nt % I
                for T in range(maxtpi, mt + 1):
                    out.append((I, N, C, T))
    return out


def drive(cfgs):
    work = common.scratch_dir('c14')
    recs = []
    real_mp = cli.multiprocessing
    try:
        for (I, N, C, T) in cfgs:
            d = os.path.join(work, f'd{I}')
            ind = os.path.join(d, 'inputs')
            if not os.path.isdir(ind):
                os.makedirs(ind)
                for j in range(I):
                    with open(os.path.join(ind, f'input_{j:02d}.json'), 'w') as f:
                        f.write('{}')
            names = sorted(os.listdir(ind))
            tasks = []
            raised = ''
            cli.multiprocessing = _MP(C)
            for job in range(1, N + 1):
                _Proc.log = []
                try:
                    with contextlib.redirect_stdout(io.StringIO()):
                        cli.run_parallel.callback(
                            data_dir=d, trials=T, n_nodes=N, job_idx=job,
                            n_cores=C, delete_existing=False)
                except Exception as ex:      # the command must not raise
                    raised = f'{type(ex).__name__}: {ex}'[:120]
                for (inp, res, nruns) in _Proc.log:
                    tasks.append({'input': names.index(os.path.basename(inp)),
                                  'nruns': int(nruns),
                                  'file': os.path.basename(res)})
            recs.append({'I': I, 'N': N, 'C': C, 'T': T, 'tasks': tasks,
                         'raised': raised})
    finally:
        cli.multiprocessing = real_mp
        shutil.rmtree(work, ignore_errors=True)
    return recs


def run(tier):
    t0 = time.time()
    v = common.Verdict('C14')
    m_ok = common.run_tlc('Parallel', cfg='Parallel_remainder.cfg', workers=16)
    common.require_ok(m_ok, 'Parallel remainder')
    if m_ok['violation']:
        raise common.MachineryError('Parallel.tla: the remainder rule violates '
                                    'C14:\n' + m_ok['stdout'][-1500:])
    m_neg = common.run_tlc('Parallel', cfg='Parallel_as_snapshot.cfg', workers=4)
    common.require_ok(m_neg, 'Parallel as_snapshot')
    if not m_neg['violation']:
        raise common.MachineryError('negative control (snapshot rule) not refuted')
    cfgs = grid(tier)
    recs = drive(cfgs)
    for j, r in enumerate(recs):
        r['id'] = j
        r['_cost'] = len(r['tasks']) * r['I'] + 1
    rejects, st = common.eval_records('C14_Data', recs, 'c14', shards=16)
    for r in recs:
        if r['id'] in rejects:
            cl = sorted(rejects[r['id']])
            v.reject(f"C14:I={r['I']},N={r['N']},C={r['C']},T={r['T']}:" + ','.join(cl),
                     {k: x for k, x in r.items() if not k.startswith('_')} | {'failed': cl})
    def _corrupt(r):
        if not r['tasks'] or r['tasks'][0]['nruns'] < 2:
            return None
        r['tasks'][0]['nruns'] -= 1
        return r
    common.binding_selftest('c14', 'C14_Data', recs, _corrupt)
    # collapse: thousands of configurations share one root cause; report keys
    rc = v.finish()
    common.write_evidence(
        'C14', tier, 'model_checking',
        {
            'states': m_ok['distinct'] + st['distinct'],
            'transitions': m_ok['generated'] + st['generated'],
            'traces_validated_against_impl': len(recs),
            'samples': [{k: x for k, x in recs[j].items() if not k.startswith('_')}
                        for j in (0, len(recs) // 2, len(recs) - 1)],
            'evaluations': sum(r['N'] for r in recs),
            'distinct_nontrivial': len([r for r in recs if r['T'] % max(1, (r['N'] * r['C']) // r['I']) != 0]),
            'rule': 'every (I inputs, N nodes, C cores, T trials) of the grid '
                    'with N*C >= I and T >= tasks per input, every job index '
                    '1..N; non-trivial = T not divisible by the tasks per '
                    'input (a remainder has to be distributed)',
            'model_configurations': m_ok['distinct'],
            'negative_control_refuted': True,
            'exhaustive': True,
        },
        time.time() - t0, len(v.violations),
        assumptions=['multiprocessing.Process and cpu_count are substituted; '
                     'the arithmetic and file naming are the real command\'s'])
    print(f'C14 {tier}: {len(recs)} configurations driven, {len(rejects)} rejected, '
          f'{time.time()-t0:.1f}s')
    return rc


def main():
    tier = sys.argv[1] if len(sys.argv) > 1 else 'quick'
    common.main_wrapper(lambda: run(tier))


if __name__ == '__main__':
    main()
