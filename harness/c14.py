"""C14 - parallel runs execute exactly the requested trials per input.

model: Parallel.tla - TLC proves the properties for the "remainder" rule on
the whole grid and refutes the snapshot's rule (negative control).
spec -> code: the real `panqec run-parallel` callback is driven for every
configuration of the grid (the grid is the Init predicate of the model) and
every job index, with multiprocessing.Process / cpu_count substituted by a
recorder; TLC (C14_Data.tla) judges the recorded (input, n_runs, result file)
triples against the property.
end to end: Pipeline.tla composes the task arithmetic with the resume rule of
BatchSimulation and the pooling of Analysis; TLC explores job orders, re-runs,
--delete-existing, tasks stopped early and extended requests; behaviours from
TLC's simulation are executed on the REAL command (real processes, real result
files) and the observations are validated by Pipeline_Trace.tla.
"""
import contextlib
import io
import os
import shutil
import sys
import time

from . import common
import panqec.cli as cli


class _Proc:
    log = []

    def __init__(self, target=None, args=(), kwargs=None):
        _Proc.log.append(args)

    def start(self):
        pass

    def join(self):
        pass


class _MP:
    def __init__(self, ncpu):
        self._n = ncpu
        self.Process = _Proc

    def cpu_count(self):
        return self._n


def grid(tier):
    mi, mn, mc, mt = (4, 3, 4, 24) if tier == 'quick' else (6, 4, 8, 64)
    out = []
    for I in range(1, mi + 1):
        for N in range(1, mn + 1):
            for C in range(1, mc + 1):
                nt = N * C
                if nt < I:
                    continue
                maxtpi = nt // I + nt % I
                for T in range(maxtpi, mt + 1):
                    out.append((I, N, C, T))
    return out


def drive(cfgs):
    work = common.scratch_dir('c14')
    recs = []
    real_mp = cli.multiprocessing
    try:
        for (I, N, C, T) in cfgs:
            d = os.path.join(work, f'd{I}')
            ind = os.path.join(d, 'inputs')
            if not os.path.isdir(ind):
                os.makedirs(ind)
                for j in range(I):
                    with open(os.path.join(ind, f'input_{j:02d}.json'), 'w') as f:
                        f.write('{}')
            names = sorted(os.listdir(ind))
            tasks = []
            raised = ''
            cli.multiprocessing = _MP(C)
            for job in range(1, N + 1):
                _Proc.log = []
                try:
                    with contextlib.redirect_stdout(io.StringIO()):
                        cli.run_parallel.callback(
                            data_dir=d, trials=T, n_nodes=N, job_idx=job,
                            n_cores=C, delete_existing=False)
                except Exception as ex:      # the command must not raise
                    raised = f'{type(ex).__name__}: {ex}'[:120]
                for (inp, res, nruns) in _Proc.log:
                    tasks.append({'input': names.index(os.path.basename(inp)),
                                  'nruns': int(nruns),
                                  'file': os.path.basename(res)})
            recs.append({'I': I, 'N': N, 'C': C, 'T': T, 'tasks': tasks,
                         'raised': raised})
    finally:
        cli.multiprocessing = real_mp
        shutil.rmtree(work, ignore_errors=True)
    return recs


def run(tier):
    t0 = time.time()
    v = common.Verdict('C14')
    m_ok = common.run_tlc('Parallel', cfg='Parallel_remainder.cfg', workers=16)
    common.require_ok(m_ok, 'Parallel remainder')
    if m_ok['violation']:
        raise common.MachineryError('Parallel.tla: the remainder rule violates '
                                    'C14:\n' + m_ok['stdout'][-1500:])
    m_neg = common.run_tlc('Parallel', cfg='Parallel_as_snapshot.cfg', workers=4)
    common.require_ok(m_neg, 'Parallel as_snapshot')
    if not m_neg['violation']:
        raise common.MachineryError('negative control (snapshot rule) not refuted')
    cfgs = grid(tier)
    recs = drive(cfgs)
    for j, r in enumerate(recs):
        r['id'] = j
        r['_cost'] = len(r['tasks']) * r['I'] + 1
    rejects, st = common.eval_records('C14_Data', recs, 'c14', shards=16)
    for r in recs:
        if r['id'] in rejects:
            cl = sorted(rejects[r['id']])
            v.reject(f"C14:I={r['I']},N={r['N']},C={r['C']},T={r['T']}:" + ','.join(cl),
                     {k: x for k, x in r.items() if not k.startswith('_')} | {'failed': cl})
    def _corrupt(r):
        if not r['tasks'] or r['tasks'][0]['nruns'] < 2:
            return None
        r['tasks'][0]['nruns'] -= 1
        return r
    common.binding_selftest('c14', 'C14_Data', [r for r in recs if r['id'] not in rejects], _corrupt)
    # ---- end to end: Pipeline.tla on real processes and files
    from . import pipeline
    p_ok = common.run_tlc('Pipeline', cfg='Pipeline.cfg' if tier == 'quick' else 'Pipeline_big.cfg',
                          workers=16, timeout=3000)
    common.require_ok(p_ok, 'Pipeline')
    if p_ok['violation']:
        raise common.MachineryError('Pipeline.tla violates its own properties:\n'
                                    + p_ok['stdout'][-1500:])
    p_neg = common.run_tlc('Pipeline', cfg='Pipeline_neg.cfg', workers=4)
    common.require_ok(p_neg, 'Pipeline negative control')
    if not p_neg['violation']:
        raise common.MachineryError('negative control (extension keeps totals) not refuted')
    behs, _ = pipeline.behaviours(300 if tier == 'quick' else 3000, common.seed() + 1)
    behs = [pipeline.norm(b) for b in behs]
    behs = [b for b in behs if any(s['a'] != 'extend' for s in b['steps'])]
    import random
    random.Random(common.seed() + 14).shuffle(behs)      # the list comes sorted
    behs = behs[:160 if tier == 'quick' else 1600]
    # wide configurations (>= 8 tasks, two-digit task numbers) with their own sample
    wide, _ = pipeline.behaviours(120 if tier == 'quick' else 1200, common.seed() + 2,
                                  cfgname='Pipeline_sim_wide.cfg')
    wide = [pipeline.norm(b) for b in wide]
    wide = [b for b in wide if any(s['a'] != 'extend' for s in b['steps'])]
    random.Random(common.seed() + 15).shuffle(wide)
    behs += wide[:64 if tier == 'quick' else 640]
    # the counterexample TLC finds for the negative control ExtensionKeepsTotal
    behs.append({'cfg': {'I': 1, 'N': 1, 'C': 3}, 'T0': 5, 'steps': [
        {'a': 'job', 'job': 1, 'delete': False, 'trials': 5}, {'a': 'extend', 'trials': 6},
        {'a': 'job', 'job': 1, 'delete': False, 'trials': 6}]})
    # the script written WITHOUT --n-cores (it then names every CPU of the machine), run on
    # a node where the scheduler leaves the job two CPUs
    import multiprocessing as _mp
    ncpu = _mp.cpu_count()
    for cl_, I_ in (('slurm', 2), ('sge', 3)):
        behs.append({'cfg': {'I': I_, 'N': 1, 'C': ncpu}, 'T0': 2 * ncpu, 'affinity': 2, 'cores_omitted': True,
                     'steps': [{'a': 'job', 'job': 1, 'trials': 2 * ncpu, 'delete': False, 'via': cl_}]})
    precs = pipeline.run_all(behs, procs=6)
    for j, r in enumerate(precs):
        r['id'] = j
    prej, pnotes, pst = pipeline.validate(precs)
    for r in precs:
        if r['id'] in prej:
            cl = sorted(prej[r['id']])
            names = sorted({c.split(':', 1)[1] for c in cl})
            acts = '+'.join(sorted({s['a'] + ('-delete' if s.get('delete') else '') for s in r['steps']}))
            v.reject(f"C14:end-to-end:{acts}:" + ','.join(names),
                     {'cfg': r['cfg'], 'T0': r['T0'], 'steps': r['steps'], 'failed': cl})
    kinds = {}
    for i, cl in pnotes.items():
        for c in cl:
            kinds.setdefault(c.split(':', 1)[1], []).append(i)
    for k, ids in sorted(kinds.items()):
        r = precs[ids[0]]
        print(f'NOTE: {k} in {len(ids)} replayed behaviours, e.g. cfg={r["cfg"]} T0={r["T0"]} '
              f'steps={[(s["a"], s.get("job"), s.get("trials")) for s in r["steps"]]} '
              '(outside the statement of C14; see DESIGN.md)')

    def _pcorrupt(r):
        # a task of a completed job that has lost its result file must be rejected
        C = r['cfg']['C']
        for s in r['steps']:
            if s['a'] == 'job':
                s['obs']['files'][C * (s['job'] - 1)] = -1
                return r
        return None
    common.binding_selftest('c14p', 'Pipeline_Trace', [r for r in precs if r['id'] not in prej],
                            _pcorrupt, evaluator=lambda ch: pipeline.validate(ch)[::2])
    rc = v.finish()
    common.write_evidence(
        'C14', tier, 'model_checking',
        {
            'states': m_ok['distinct'] + st['distinct'] + p_ok['distinct'] + pst['distinct'],
            'transitions': m_ok['generated'] + st['generated'] + p_ok['generated'] + pst['generated'],
            'traces_validated_against_impl': len(recs) + len(precs),
            'end_to_end': {'pipeline_model_states': p_ok['distinct'],
                           'behaviours_executed_on_the_real_command': len(precs),
                           'steps_validated': sum(len(r['steps']) for r in precs),
                           'rejected': len(prej),
                           'notes': {k: len(x) for k, x in kinds.items()},
                           'negative_control_refuted': True},
            'samples': [{k: x for k, x in recs[j].items() if not k.startswith('_')}
                        for j in (0, len(recs) // 2, len(recs) - 1)],
            'evaluations': sum(r['N'] for r in recs),
            'distinct_nontrivial': len([r for r in recs if r['T'] % max(1, (r['N'] * r['C']) // r['I']) != 0]),
            'rule': 'every (I inputs, N nodes, C cores, T trials) of the grid '
                    'with N*C >= I and T >= tasks per input, every job index '
                    '1..N; non-trivial = T not divisible by the tasks per '
                    'input (a remainder has to be distributed)',
            'model_configurations': m_ok['distinct'],
            'negative_control_refuted': True,
            'exhaustive': True,
        },
        time.time() - t0, len(v.violations),
        assumptions=['multiprocessing.Process and cpu_count are substituted; '
                     'the arithmetic and file naming are the real command\'s'])
    print(f'C14 {tier}: end to end {len(precs)} behaviours on the real command, {len(prej)} rejected')
    print(f'C14 {tier}: {len(recs)} configurations driven, {len(rejects)} rejected, '
          f'{time.time()-t0:.1f}s')
    return rc


def main():
    tier = sys.argv[1] if len(sys.argv) > 1 else 'quick'
    common.main_wrapper(lambda: run(tier))


if __name__ == '__main__':
    main()
