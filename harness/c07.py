"""C07 - the Pauli noise model is the stated i.i.d. channel and is sampled
faithfully.

model: Noise_Model.tla - over the whole simplex grid (faces and vertices) and
all rates TLC checks normalisation, that the inverse-CDF sampler's measure
equals the channel (also under every relabelling), p = 0 / p = 1, and that the
conditional updates are the conditionals of the joint.
spec -> code: for every grid point, code and noise deformation the harness
reads probability_distribution, drives fast_choice and generate() with a
scripted generator that returns the midpoint variates of the specification,
inverts get_weights, reads the BP-OSD channel probabilities and calls
update_probabilities; TLC (C07_Data.tla) compares everything with Noise.tla.
"""
import zlib
import itertools
import math
import sys
import time

import numpy as np

from . import codes, common
from panqec.error_models import PauliErrorModel
from panqec.error_models._pauli_error_model import fast_choice
from panqec.decoders import BeliefPropagationOSDDecoder

G = 1_000_000
XZ = {(0, 0): 'I', (1, 0): 'X', (1, 1): 'Y', (0, 1): 'Z'}


class Scripted:
    """A generator whose random() returns the scripted midpoint variates."""

    def __init__(self, js, d2, us=None):
        self.us = [(2 * j + 1) / (2 * d2) for j in js] if us is None else list(us)
        self.calls = 0

    def _next(self):
        u = self.us[self.calls] if self.calls < len(self.us) else 0.5
        self.calls += 1
        return u

    def random(self, size=None, *a, **kw):
        # scalar or vectorised draws: variates are handed out in order
        if size is None:
            return self._next()
        k = int(np.prod(size))
        return np.array([self._next() for _ in range(k)]).reshape(size)


def on_grid(f, d2):
    k = round(float(f) * d2)
    return int(k) if abs(float(f) - k / d2) <= 1e-12 else -1


def to_g(f):
    f = float(f)
    if not math.isfinite(f):
        return -1
    return int(round(f * G))


def marginal_from_weight(w):
    w = float(w)
    if w >= 40:
        return 0
    if w <= -40:
        return G
    return to_g(1.0 / (1.0 + math.exp(w)))


def _register_user_code():
    """A user-defined code class whose Clifford deformations are the two 3-CYCLES of
    the Paulis (the library's own deformations are transpositions): the noise model
    takes whatever permutation get_deformation returns."""
    import panqec.codes as pc
    if hasattr(pc, 'CyclicToric2DCode'):
        return

    class CyclicToric2DCode(pc.Toric2DCode):
        deformation_names = ['C3', 'C3inv']

        def get_deformation(self, location, deformation_name, deformation_axis='y', **kwargs):
            if deformation_name not in ('C3', 'C3inv'):
                return super().get_deformation(location, deformation_name, deformation_axis, **kwargs)
            if self.qubit_axis(location) != deformation_axis:
                return {'X': 'X', 'Y': 'Y', 'Z': 'Z'}
            return {'X': 'Z', 'Z': 'Y', 'Y': 'X'} if deformation_name == 'C3' else {'X': 'Y', 'Y': 'Z', 'Z': 'X'}
    pc.CyclicToric2DCode = CyclicToric2DCode


def subjects(tier):
    _register_user_code()
    out = [('Toric2DCode', (2, 2)), ('Planar2DCode', (2, 3)), ('Toric3DCode', (2, 2, 2)), ('XCubeCode', (2, 2, 2))]
    if tier != 'quick':
        out += [('RotatedPlanar2DCode', (3, 3)), ('RhombicToricCode', (2, 2, 2)),
                ('Color488Code', (2, 2)),
                ('RotatedToric3DCode', (2, 3, 2)), ('Color666ToricCode', (1, 1))]
    res = []
    for name, size in out:
        vs = codes.deformation_variants(name)
        pick = vs if (tier != 'quick' or name == 'XCubeCode') else vs[:1] + vs[-2:]
        for dn, kw in dict.fromkeys((d, tuple(sorted(k.items()))) for d, k in pick):
            res.append((name, size, dn, dict(kw)))
    res.append(('CyclicToric2DCode', (2, 2), 'C3', {}))
    res.append(('CyclicToric2DCode', (2, 2), 'C3inv', {'deformation_axis': 'x'}))
    return res


def grid(den, tier):
    dirs = [r for r in itertools.product(range(den + 1), repeat=3) if sum(r) == den]
    pts = [(pn, r) for pn in range(den + 1) for r in dirs]
    return pts


@common.safe
def drive(item):
    name, size, dn, kw, den, pts, seed = item
    d2 = den * den
    code = codes.build(name, size)
    n = code.n
    rng = np.random.default_rng(seed)
    if dn is None:
        D = [['X', 'Y', 'Z']] * n
    else:
        D = []
        for q in range(n):
            d = code.get_deformation(tuple(code.qubit_coordinates[q]), dn, **kw)
            D.append([d['X'], d['Y'], d['Z']])
    recs = []
    for (pn, r) in pts:
        p = pn / den
        rr = tuple(x / den for x in r)
        # exactly 0 or 1 as integer literals for every other grid point
        # (dispersed: every pure channel gets both spellings at an end and inside)
        if zlib.crc32(repr((0, pn, tuple(r))).encode()) % 2 == 0:
            rr = tuple(int(v) if v in (0.0, 1.0) else v for v in rr)
        em = PauliErrorModel(*rr, deformation_name=dn, deformation_kwargs=dict(kw))
        pi, px, py, pz = em.probability_distribution(code, p)
        rec = {'Den': den, 'G': G, 'pn': pn, 'r': list(r), 'n': int(n), 'D': D,
               'tables': [[on_grid(pi[q], d2), on_grid(px[q], d2), on_grid(py[q], d2),
                           on_grid(pz[q], d2)] for q in range(n)],
               'samples': [], 'fast': [], 'wx': [], 'wz': [], 'bp_px': [], 'bp_pz': [],
               'upd': []}
        # sampler through generate(): all variates spread over the qubits
        # a Latin arrangement: over the D2 samples every qubit receives every
        # midpoint variate exactly once (offsets differ per qubit), so the
        # per-qubit letter counts must equal the channel numerators exactly
        offs = [int(x) for x in rng.integers(0, d2, size=n)]
        for s in range(d2):
            js = [(s + offs[q]) % d2 for q in range(n)]
            gen = Scripted(js, d2)
            e = np.asarray(em.generate(code, p, rng=gen)).ravel()
            ok = e.shape[0] == 2 * n
            letters = [XZ.get((int(e[q]), int(e[n + q])), '?') if ok else '?' for q in range(n)]
            rec['samples'].append({'js': js, 'letters': letters, 'draws': gen.calls,
                                   'len': int(e.shape[0]),
                                   'binary': bool(np.all((e == 0) | (e == 1)))})
        # the ends of the variate's range [0, 1): exactly 0.0 and the largest
        # float below 1 on every qubit - whatever the sampler does at a cell
        # boundary, a Pauli of probability zero must not come out
        rec['edge'] = []
        for u in (0.0, float(np.nextafter(1.0, 0.0))):
            gen = Scripted([], d2, us=[u] * (4 * n))
            e = np.asarray(em.generate(code, p, rng=gen)).ravel()
            ok = e.shape[0] == 2 * n
            rec['edge'].append([XZ.get((int(e[q]), int(e[n + q])), '?') if ok else '?'
                                for q in range(n)])
        # fast_choice directly, every variate, channel of qubit 0
        for j in range(d2):
            gen = Scripted([j], d2)
            rec['fast'].append([j, fast_choice(('I', 'X', 'Y', 'Z'),
                                               [pi[0], px[0], py[0], pz[0]], rng=gen)])
        # matching weights -> flip marginals
        wx, wz = em.get_weights(code, p)
        rec['wx'] = [marginal_from_weight(w) for w in wx]
        rec['wz'] = [marginal_from_weight(w) for w in wz]
        # ... and what actually reaches the matcher: the weights of the edges
        # of the matching graphs built by MatchingDecoder (edge of qubit q)
        rec['mwx'], rec['mwz'] = [], []
        if name in ('Toric2DCode', 'Planar2DCode', 'RotatedPlanar2DCode') and pn > 0:
            from panqec.decoders import MatchingDecoder
            mdec = MatchingDecoder(code, em, p)
            for key, matcher in (('mwx', mdec.matcher_x), ('mwz', mdec.matcher_z)):
                for (_, _, attr) in matcher.edges():
                    for q in attr['fault_ids']:
                        rec[key].append([int(q) + 1, marginal_from_weight(attr['weight'])])
        if name == 'XCubeCode' and pn > 0:
            # the X-cube decoder matches in planes: the plane normal to an axis is a 2-D
            # torus whose edges stand for the 3-D qubits along the two other axes.  The
            # weight of a plane edge must be the LLR of the X-flip marginal of the 3-D
            # qubits it stands for (one representative per axis: the channel of a
            # qubit depends on its axis only)
            from panqec.decoders import XCubeMatchingDecoder
            xdec = XCubeMatchingDecoder(code, em, p)
            rep = {a: next(int(i) for i, loc in enumerate(code.qubit_coordinates) if code.qubit_axis(loc) == a)
                   for a in 'xyz'}
            axes3 = {'x': {'x': 'y', 'y': 'z'}, 'y': {'x': 'x', 'y': 'z'}, 'z': {'x': 'x', 'y': 'y'}}
            for plane, mdec in xdec.matching_decoder.items():
                t2 = xdec.toric_code[plane]
                for key, matcher in (('mwx', mdec.matcher_x), ('mwz', mdec.matcher_z)):
                    for (_, _, attr) in matcher.edges():
                        for q2 in attr['fault_ids']:
                            a3 = axes3[plane][t2.qubit_axis(t2.qubit_coordinates[int(q2)])]
                            rec['mwx'].append([rep[a3] + 1, marginal_from_weight(attr['weight'])])
        # BP-OSD priors (decoder on the plain code and, if a deformation is
        # named, on the deformed = non-CSS code) and conditional update
        if 0 < pn < den:
            passes = []
            for deform_code in ([False, True] if dn is not None else [False]):
                c2 = codes.build(name, size, dn if deform_code else None, kw if deform_code else None)
                dec = BeliefPropagationOSDDecoder(c2, em, p, max_bp_iter=3, osd_order=0)
                m = c2.stabilizer_matrix.shape[0]
                dec.decode(np.zeros(m, dtype=np.uint8))
                if c2.is_css:
                    bx = np.asarray(dec.x_decoder.channel_probs)
                    bz = np.asarray(dec.z_decoder.channel_probs)
                else:
                    joint = np.asarray(dec.decoder.channel_probs)
                    bz, bx = joint[:n], joint[n:]
                passes.append(([to_g(x) for x in bx], [to_g(x) for x in bz], deform_code))
            rec['bp_px'], rec['bp_pz'], _ = passes[0]
            for bx, bz, _ in passes[1:]:
                extra = dict(rec, bp_px=bx, bp_pz=bz, samples=[], fast=[], wx=[], wz=[], upd=[], edge=[], mwx=[], mwz=[])
                extra['_label'] = f'{codes.label(name, size, dn, kw)} pn={pn} r={r} (decoder on deformed code)'
                extra['_cost'] = n
                recs.append(extra)
            dec = BeliefPropagationOSDDecoder(code, em, p)
            # channel_update switched on by a truthy value that is not the object True:
            # after one decode the X decoder must hold the CONDITIONAL priors
            if code.is_css:
                flag = (np.True_, 1, True)[(pn + r[0]) % 3]
                decf = BeliefPropagationOSDDecoder(code, em, p, max_bp_iter=3, osd_order=0,
                                                   channel_update=flag)
                m_ = code.stabilizer_matrix.shape[0]
                decf.decode(np.zeros(m_, dtype=np.uint8))
                xs = np.asarray(decf.x_decoder.channel_probs)
                for q in range(n):
                    rec['upd'].append({'q': q + 1, 'dir': 'z->x', 'flip': False, 'k': to_g(xs[q])})
            for direction in ('z->x', 'x->z'):
                corr = (rng.random(n) < 0.5).astype(int)
                with np.errstate(all='ignore'):
                    newp = dec.update_probabilities(corr, px, py, pz, direction=direction)
                for q in range(n):
                    rec['upd'].append({'q': q + 1, 'dir': direction, 'flip': bool(corr[q]),
                                       'k': to_g(newp[q])})
        rec['_label'] = f'{codes.label(name, size, dn, kw)} pn={pn} r={r}'
        rec['_cost'] = n * (d2 + 10)
        recs.append(rec)
    return recs


@common.safe
def interference(item):
    """Several noise models of the same direction but different deformation
    (name / axis) queried on ONE code object in one process, in two orders:
    each must still report its own relabelled channel (no shared caches)."""
    name, size, den, pts, seed = item
    d2 = den * den
    code = codes.build(name, size)
    n = code.n
    variants = []
    for dn, kw in codes.deformation_variants(name):
        variants.append((dn, dict(kw)))
    rng = np.random.default_rng(seed)
    recs = []
    for (pn, r) in pts:
        p = pn / den
        rr = tuple(x / den for x in r)
        models = [(dn, kw, PauliErrorModel(*rr, deformation_name=dn, deformation_kwargs=dict(kw)))
                  for dn, kw in variants]
        order = list(range(len(models)))
        for rep in range(2):
            rng.shuffle(order)
            for j in order:
                dn, kw, em = models[j]
                pi, px, py, pz = em.probability_distribution(code, p)
                wx, wz = em.get_weights(code, p)
                if dn is None:
                    D = [['X', 'Y', 'Z']] * n
                else:
                    D = []
                    for q in range(n):
                        d = code.get_deformation(tuple(code.qubit_coordinates[q]), dn, **kw)
                        D.append([d['X'], d['Y'], d['Z']])
                recs.append({'Den': den, 'G': G, 'pn': pn, 'r': list(r), 'n': int(n), 'D': D,
                             'tables': [[on_grid(pi[q], d2), on_grid(px[q], d2), on_grid(py[q], d2),
                                         on_grid(pz[q], d2)] for q in range(n)],
                             'samples': [], 'fast': [], 'edge': [], 'mwx': [], 'mwz': [],
                             'wx': [marginal_from_weight(w) for w in wx],
                             'wz': [marginal_from_weight(w) for w in wz],
                             'bp_px': [], 'bp_pz': [], 'upd': [],
                             '_label': f'{codes.label(name, size, dn, kw)} pn={pn} r={r} '
                                       f'(models interleaved on one code object, pass {rep})',
                             '_cost': n})
    return recs


SAME_N_GROUPS = [
    [('RotatedPlanar2DCode', (2, 3)), ('RotatedPlanar2DCode', (3, 2))],
    [('Toric2DCode', (2, 2)), ('Planar2DCode', (2, 3)), ('RotatedPlanar2DCode', (2, 4)), ('RotatedPlanar2DCode', (4, 2))],
    [('Toric3DCode', (2, 2, 3)), ('Toric3DCode', (2, 3, 2)), ('Toric3DCode', (3, 2, 2))],
    [('Planar2DCode', (2, 3)), ('Planar2DCode', (3, 2))],
]


def _forked_worker(seed_unused):
    """In a worker forked from the harness: a simulation built the way an input
    file builds it (no generator passed), 12 trials; one number per drawn error."""
    import zlib as _z
    from panqec.codes import Toric2DCode
    from panqec.decoders import MatchingDecoder
    from panqec.simulation import DirectSimulation
    import panqec.simulation._direct_simulation as DS
    code = Toric2DCode(4, 4)
    em = PauliErrorModel(1 / 3, 1 / 3, 1 / 3)
    drawn = []
    real = DS.run_once

    def spy(*a, **k):
        out = real(*a, **k)
        drawn.append(_z.crc32(np.asarray(out['error']).tobytes()) % 1000003)
        return out
    DS.run_once = spy
    try:
        sim = DirectSimulation(code, em, MatchingDecoder(code, em, 0.3), 0.3, verbose=False)
        sim.run(12)
    finally:
        DS.run_once = real
    return drawn


def forked_records():
    # the parent has numpy's global generator initialised (as any process that has
    # imported the library has); four workers are forked from it
    np.random.seed(12345)
    np.random.random()
    seqs = common.pmap(_forked_worker, [0, 1, 2, 3], procs=4)
    return [{'forked': [list(s) for s in seqs], '_label': 'four forked workers, no generator passed', '_cost': 1}]


@common.safe
def shared_model(item):
    """ONE noise model object used on several codes with the same number of
    qubits (same class, transposed shapes; different classes), in two orders."""
    group, dn, kw, den, pts, seed = item
    d2 = den * den
    objs = [(name, size, codes.build(name, size)) for name, size in group]
    rng = np.random.default_rng(seed)
    recs = []
    for (pn, r) in pts:
        p = pn / den
        em = PauliErrorModel(*(x / den for x in r), deformation_name=dn, deformation_kwargs=dict(kw))
        order = list(range(len(objs)))
        for rep in range(2):
            rng.shuffle(order)
            for j in order:
                name, size, code = objs[j]
                n = code.n
                pi, px, py, pz = em.probability_distribution(code, p)
                D = []
                for q in range(n):
                    d = code.get_deformation(tuple(code.qubit_coordinates[q]), dn, **kw)
                    D.append([d['X'], d['Y'], d['Z']])
                js = [int(x) for x in rng.integers(0, d2, size=n)]
                gen = Scripted(js, d2)
                e = np.asarray(em.generate(code, p, rng=gen)).ravel()
                letters = [XZ.get((int(e[q]), int(e[n + q])), '?') for q in range(n)]
                recs.append({'Den': den, 'G': G, 'pn': pn, 'r': list(r), 'n': int(n), 'D': D,
                             'tables': [[on_grid(pi[q], d2), on_grid(px[q], d2), on_grid(py[q], d2),
                                         on_grid(pz[q], d2)] for q in range(n)],
                             'samples': [{'js': js, 'letters': letters, 'draws': gen.calls,
                                          'len': int(e.shape[0]),
                                          'binary': bool(np.all((e == 0) | (e == 1)))}],
                             'fast': [], 'edge': [], 'mwx': [], 'mwz': [], 'wx': [], 'wz': [], 'bp_px': [], 'bp_pz': [], 'upd': [],
                             '_label': f'{codes.label(name, size, dn, kw)} pn={pn} r={r} '
                                       f'(one model shared by {len(objs)} codes of equal n, pass {rep})',
                             '_cost': n})
    return recs


def run(tier):
    t0 = time.time()
    v = common.Verdict('C07')
    den = 6 if tier == 'quick' else 12
    model = common.run_tlc('Noise_Model', cfg=f'Noise_Model_{den}.cfg', workers=16, timeout=1500)
    common.require_ok(model, 'Noise_Model')
    if model['violation']:
        raise common.MachineryError('Noise_Model violated:\n' + model['stdout'][-1500:])
    pts = grid(den, tier)
    jobs = []
    subs = subjects(tier)
    for si, (name, size, dn, kw) in enumerate(subs):
        # thorough: the full grid for every subject would be 1183 x subjects;
        # each subject gets the full set of rates x a rotating third of the
        # directions (the first subject of each class gets everything)
        mine = pts if (tier == 'quick' or dn is None) else pts[si % 3::3]
        chunks = [mine[k::8] for k in range(8)]
        for k, ch in enumerate(chunks):
            if ch:
                jobs.append((name, size, dn, kw, den, ch, common.seed() + 7 * si + k))
    ijobs = []
    biased = [pt for pt in pts if pt[0] in (den // 2, den) and len(set(pt[1])) == 3]
    # the two rates alternate, so that a truncated slice holds both
    half_ = [pt for pt in biased if pt[0] == den // 2]
    full_ = [pt for pt in biased if pt[0] == den]
    biased = [pt for pair in zip(half_, full_) for pt in pair] + half_[len(full_):] + full_[len(half_):]
    for si, (name, size) in enumerate(dict.fromkeys((s[0], s[1]) for s in subs)):
        if name in codes.SUPPORTED and len(codes.deformation_variants(name)) > 2:
            ijobs.append((name, size, den, (biased[2 * (si % 3):] + biased[:2 * (si % 3)])[:6 if tier == 'quick' else 40],
                          common.seed() + si))
    sjobs = []
    for gi, group in enumerate(SAME_N_GROUPS):
        for dn, kw in (('XZZX', {}), ('XZZX', {'deformation_axis': 'x'}), ('XY', {})):
            if dn == 'XY' and any(codes.dimension(nm) == 3 for nm, _ in group):
                continue
            sjobs.append((group, dn, kw, den, (biased[2 * gi:] + biased[:2 * gi])[:4 if tier == 'quick' else 30],
                          common.seed() + 31 * gi))
    out = (common.pmap(drive, jobs, procs=15) + common.pmap(interference, ijobs, procs=15)
           + common.pmap(shared_model, sjobs, procs=15))
    recs = []
    for x in out:
        if isinstance(x, list):
            recs += x
        else:
            recs += common.split_raised('C07', v, [x])
    recs += forked_records()
    for j, r in enumerate(recs):
        r['id'] = j
    rejects, st = common.eval_records('C07_Data', recs, 'c07', shards=16,
                                      cfg=f'C07_Data_{den}.cfg')
    for r in recs:
        if r['id'] in rejects:
            cl = sorted(rejects[r['id']])
            v.reject('C07:' + ','.join(cl) + ':' + r['_label'].split(' ')[0].split('(')[0],
                     {'case': r['_label'], 'failed': cl,
                      'tables_qubit0': r.get('tables', [None])[0], 'D_qubit0': r.get('D', [None])[0],
                      'forked': r.get('forked')})
    rc = v.finish()
    n_var = sum(len(r.get('fast', [])) + sum(len(s['js']) for s in r.get('samples', [])) for r in recs)
    common.write_evidence(
        'C07', tier, 'model_checking',
        {
            'states': model['distinct'] + st['distinct'],
            'transitions': model['generated'] + st['generated'],
            'traces_validated_against_impl': len(recs),
            'samples': [{'case': r['_label'], 'tables_qubit0': r['tables'][0],
                         'first_sample': (r['samples'][0] if r['samples'] else None)}
                        for r in recs[::max(1, len(recs) // 5)][:6]],
            'evaluations': n_var,
            'distinct_nontrivial': len({(r['_label']) for r in recs if 0 < r.get('pn', 1)}),
            'rule': f'grid Den = {den}: every direction of the simplex (faces '
                    'and vertices) x every rate pn/Den x codes x noise '
                    'deformation names/axes; per grid point every midpoint '
                    'variate through fast_choice and through generate() '
                    '(scripted generator), weights, BP priors, conditional '
                    'updates; non-trivial = p > 0',
            'grid_points': len(pts), 'subjects': len(subs), 'variates_driven': n_var,
            'model_states': model['distinct'], 'exhaustive': True,
        },
        time.time() - t0, len(v.violations),
        assumptions=['midpoint variates (2j+1)/(2 Den^2) keep float rounding '
                     'away from every threshold',
                     'probability tables must be within 1e-12 of the grid; '
                     'weights/BP priors/conditional updates are compared at '
                     '2e-6 (integers over 10^6)',
                     'the per-qubit relabelling table is read from '
                     'code.get_deformation (its correctness is C08)'])
    print(f'C07 {tier}: Den={den}, {len(pts)} grid points x {len(subs)} subjects = '
          f'{len(recs)} records, {n_var} variates, {len(rejects)} rejected, {time.time()-t0:.1f}s')
    return rc


def main():
    tier = sys.argv[1] if len(sys.argv) > 1 else 'quick'
    common.main_wrapper(lambda: run(tier))


if __name__ == '__main__':
    main()
