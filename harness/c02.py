"""C02 - the parity-check matrix is the faithful image of the lattice
definition.

(a) code -> spec: every library object of the C01 domain is exported with both
    the primitive view (get_stabilizer dicts, coordinates) and every derived
    view; TLC (C02_Data.tla) re-derives the views with CodeObject.tla.
(b) spec -> code: C02_Model.tla enumerates all small lattice definitions and
    proves the derivation theorems; the harness builds a *user-defined*
    StabilizerCode subclass from each definition and validates its export
    with the same C02_Data predicates.
(c) hash independence: exports are recomputed in child interpreters with
    other PYTHONHASHSEED values and TLC compares them field by field.
"""
import json
import os
import subprocess
import sys
import time

import numpy as np
from scipy.sparse import csr_matrix

from . import codes, common
from .c01 import domain as c01_domain

LET = ['X', 'Y', 'Z']


def sites_of_dict(code, op, qpos):
    return [[qpos.get(tuple(loc), -1), p] for loc, p in op.items()]


def project_c02(code, rng, n_conv=10, full_synd_below=20, n_synd=10):
    n = code.n
    H = code.stabilizer_matrix
    rec = {'n': int(n)}
    rec.update(codes.project_raw(code))
    rec.pop('raw_lx'), rec.pop('raw_lz')
    rec['stabs'] = codes.rows_to_ops(H, n)
    xi = np.asarray(code.x_indices)
    zi = np.asarray(code.z_indices)
    rec['xmask'] = [int(i) + 1 for i in np.nonzero(xi)[0]]
    rec['zmask'] = [int(i) + 1 for i in np.nonzero(zi)[0]]
    rec['is_css'] = bool(code.is_css)
    rec['hx'], rec['hz'] = [], []
    rec['hx_ok'] = False
    rec['hx_raises'] = False
    try:
        hx, hz = code.Hx, code.Hz
        rec['hx_ok'] = (hx.shape[1] == n and hz.shape[1] == n)
        rec['hx'] = [sorted(int(c) for c, v in zip(hx.getrow(i).indices,
                                                   hx.getrow(i).data) if v)
                     for i in range(hx.shape[0])]
        rec['hz'] = [sorted(int(c) for c, v in zip(hz.getrow(i).indices,
                                                   hz.getrow(i).data) if v)
                     for i in range(hz.shape[0])]
    except ValueError:
        rec['hx_raises'] = True
    qc = code.qubit_coordinates
    qpos = {tuple(q): i for i, q in enumerate(qc)}
    sc = code.stabilizer_coordinates

    # dict -> bsf -> dict
    conv = []
    ops = []
    if len(sc) > 0:
        for j in rng.choice(len(sc), size=min(len(sc), n_conv), replace=False):
            ops.append(code.get_stabilizer(sc[int(j)]))
    ops += list(code.get_logicals_x())[:2] + list(code.get_logicals_z())[:2]
    for _ in range(n_conv):
        w = int(rng.integers(1, min(n, 6) + 1))
        qs = rng.choice(n, size=w, replace=False)
        ops.append({tuple(qc[int(q)]): LET[int(rng.integers(3))] for q in qs})
    for op in ops:
        op = {tuple(k): v for k, v in op.items()}
        bsf = code.to_bsf(op)
        back = code.from_bsf(bsf)
        conv.append({'sites': sites_of_dict(code, op, qpos),
                     'bsf': codes.bsf_to_op(bsf, n),
                     'back': sites_of_dict(code, back, qpos)})
    rec['conv'] = conv

    # bsf -> dict -> bsf, in each accepted array form
    unconv = []
    for t in range(n_conv):
        vec = (rng.random(2 * n) < min(0.5, 3.0 / max(n, 1))).astype(np.uint8)
        if t == 0 and n >= 1:
            vec[:] = 0
            vec[0] = vec[n] = 1          # a Y
        form = (t + n) % 5                 # (n: short cycles still reach every form over the codes)
        if t == 0:
            form = 4                         # the Y through the unsorted sparse form
        if form == 0:
            arg = vec
        elif form == 1:
            arg = vec.reshape(1, -1)
        elif form == 2:
            arg = csr_matrix(vec.reshape(1, -1))
        elif form == 3:
            # sparse row with explicitly stored zeros (e = e1 + e2; e.data %= 2)
            mask = np.zeros_like(vec)
            mask[::2] = 1
            arg = (csr_matrix(((vec + mask) % 2).reshape(1, -1)) + csr_matrix(mask.reshape(1, -1))).tocsr()
            arg.data %= 2
        else:
            # sparse row whose column indices are stored in decreasing order
            # (what bsparse.insert_mod2 produces when Z is inserted before X)
            nz = np.nonzero(vec)[0][::-1]
            arg = csr_matrix((np.ones(len(nz), dtype=np.uint8), nz.copy(),
                              np.array([0, len(nz)])), shape=(1, 2 * n))
        d = code.from_bsf(arg)
        back = code.to_bsf(d)
        unconv.append({'bsf': codes.bsf_to_op(vec, n),
                       'sites': sites_of_dict(code, d, qpos),
                       'back': codes.bsf_to_op(back, n)})
    rec['unconv'] = unconv

    # syndromes
    errs = []
    if n <= full_synd_below:
        for c in range(2 * n):
            v = np.zeros(2 * n, dtype=np.uint8)
            v[c] = 1
            errs.append(v)
    else:
        for c in rng.choice(2 * n, size=min(2 * n, n_synd), replace=False):
            v = np.zeros(2 * n, dtype=np.uint8)
            v[int(c)] = 1
            errs.append(v)
    for _ in range(n_synd):
        errs.append((rng.random(2 * n) < 0.3).astype(np.uint8))
    synd = []
    for v in errs:
        s = np.asarray(code.measure_syndrome(v)).ravel()
        item = {'e': codes.bsf_to_op(v, n),
                's': [int(i) for i in np.nonzero(s)[0]], 'sx': [], 'sz': [], 'lens': [0, 0]}
        if rec['is_css']:
            sx = np.asarray(code.extract_x_syndrome(s)).ravel()
            sz = np.asarray(code.extract_z_syndrome(s)).ravel()
            item['sx'] = [int(i) for i in np.nonzero(sx)[0]]
            item['sz'] = [int(i) for i in np.nonzero(sz)[0]]
            item['lens'] = [int(sx.shape[0]), int(sz.shape[0])]
        synd.append(item)
    rec['synd'] = synd
    # membership / indexing helpers of the coordinate API
    types = sorted({str(code.stabilizer_type(tuple(c))) for c in sc})
    tindex = []
    for t in types:
        ti = code.type_index(t)
        tindex.append(sorted(int(v) for v in ti.values()))
    spos = {tuple(c): i for i, c in enumerate(sc)}
    rec['api'] = {
        'coordinates_as_defined': bool(
            [tuple(c) for c in qc] == [tuple(c) for c in code.get_qubit_coordinates()]
            and [tuple(c) for c in sc] == [tuple(c) for c in code.get_stabilizer_coordinates()]),
        'n_stabilizers': int(code.n_stabilizers),
        'qubits_are_qubits': bool(all(code.is_qubit(tuple(c)) for c in qc)),
        'stabs_are_not_qubits': bool(not any(code.is_qubit(tuple(c)) for c in sc)),
        'stabs_are_stabs': bool(all(code.is_stabilizer(tuple(c)) for c in sc)),
        'qubits_are_not_stabs': bool(not any(code.is_stabilizer(tuple(c)) for c in qc)),
        'typed_membership': bool(all(
            code.is_stabilizer(tuple(c), t) == (str(code.stabilizer_type(tuple(c))) == t)
            for c in sc for t in types)),
        'type_index': tindex,
        'qubit_index': [int(code.qubit_index[tuple(c)]) for c in qc],
        'stabilizer_index': [int(code.stabilizer_index[tuple(c)]) for c in sc],
    }
    rec['twin'] = []
    return rec


# ---- user-defined codes (spec -> code) ------------------------------------

def make_user_code(defn, rng):
    """Build a StabilizerCode subclass through the documented coordinate API
    from a TLC-generated lattice definition."""
    from panqec.codes import StabilizerCode
    nq = defn['nq']
    ns = len(defn['stabs'])
    dim = int(rng.integers(2, 4))
    pool = set()
    while len(pool) < nq + ns:
        pool.add(tuple(int(x) for x in rng.integers(-3, 9 if nq < 50 else 40, size=dim)))
    pool = list(pool)
    rng.shuffle(pool)
    # coordinates are only ever used as dictionary keys: a user lattice may put
    # qubits on half-integer points (edge midpoints) or hand over numpy integers
    style = int(rng.integers(4))
    if style == 1:
        pool = [tuple(x / 2 for x in c) for c in pool]
    elif style == 2:
        pool = [tuple(np.int64(x) for x in c) for c in pool]
    qcoords = pool[:nq]
    scoords = pool[nq:]
    stab_ops = {scoords[i]: {qcoords[q]: p for q, p in defn['stabs'][i]}
                for i in range(ns)}

    class UserCode(StabilizerCode):
        dimension = dim
        label = 'user-defined'

        def get_qubit_coordinates(self):
            return list(qcoords)

        def get_stabilizer_coordinates(self):
            return list(scoords)

        def qubit_axis(self, location):
            return 'x'

        def stabilizer_type(self, location):
            return 'generic'

        def get_stabilizer(self, location):
            return dict(stab_ops[location])

        def get_logicals_x(self):
            return []

        def get_logicals_z(self):
            return []

        def qubit_representation(self, location, **kw):
            return {}

        def stabilizer_representation(self, location, **kw):
            return {}

    return UserCode(2, 2, 2) if dim == 3 else UserCode(2, 2)


def user_defs(tier, work):
    out = os.path.join(work, 'defs.json')
    cfg = 'C02_Model.cfg' if tier == 'quick' else 'C02_Model_thorough.cfg'
    r = common.run_tlc('C02_Model', cfg=cfg, env={'VERIF_OUT': out},
                       workers=16, workdir=work, timeout=3000, heap='8g')
    common.require_ok(r, 'C02_Model')
    if r['violation']:
        raise common.MachineryError('C02_Model: the specification violates '
                                    'its own theorems:\n' + r['stdout'][-2000:])
    with open(out) as f:
        defs = json.load(f)
    return defs, r


# ---- hash-seed twins --------------------------------------------------------

def twin_subjects():
    subj = []
    for name in codes.CLASSES:
        ms = 3 if codes.dimension(name) == 2 else 2
        if name in ('HollowRhombicCode',):
            ms = 4
        ss = codes.sizes(name, ms, max_n=150) or codes.sizes(name, ms + 2, max_n=150)
        for size in (ss[0], ss[-1]):
            for dname, kw in codes.deformation_variants(name)[:2]:
                subj.append((name, list(size), dname, kw))
    return subj


def twin_export(subjects):
    out = {}
    for name, size, dname, kw in subjects:
        code = codes.build(name, tuple(size), dname, kw)
        r = codes.project(code)
        raw = codes.project_raw(code)
        out[codes.label(name, size, dname, kw)] = {
            'qcoords': raw['qcoords'], 'scoords': raw['scoords'],
            'stabs': r['stabs'], 'lx': r['lx'], 'lz': r['lz'],
            'types': [code.stabilizer_type(tuple(s)) for s in code.get_stabilizer_coordinates()],
        }
    return out


def child_main():
    subjects = json.loads(sys.stdin.read())
    json.dump(twin_export(subjects), sys.stdout)


def sut_raised(ex):
    """'ExcType: message at panqec/file.py:line' if the exception comes out of
    the library under test, else None (then it is the harness's own)."""
    import traceback
    tb = traceback.extract_tb(ex.__traceback__)
    where = [f for f in tb if '/panqec/' in f.filename and '/site-packages/' not in f.filename]
    if not where:
        return None
    return (f'{type(ex).__name__}: {str(ex)[:80]} at panqec/'
            f'{where[-1].filename.split("/panqec/")[-1]}:{where[-1].lineno}')


def run(tier):
    t0 = time.time()
    rng = np.random.default_rng(common.seed() + 202)
    v = common.Verdict('C02')
    work = common.scratch_dir('c02')

    def projected(code_maker, label, **kw_):
        """project_c02 of a code; an exception raised inside the library is a
        rejected observation (none of the modelled calls may raise)."""
        try:
            return project_c02(code_maker(), rng, **kw_)
        except common.MachineryError:
            raise
        except Exception as ex:      # noqa
            msg = sut_raised(ex)
            if msg is None:
                raise
            v.reject(f'C02:{label.split("(")[0]}:raised:{type(ex).__name__}',
                     {'label': label, 'raised': msg})
            return None

    # (a) library codes
    dom = c01_domain(tier)
    # beyond the C01 domain (whose rank computations bound n): per class the
    # largest lattices with side <= 6 (3-D) / 12 (2-D) - features that need room
    # (a hole large enough to swallow a whole cell) only exist there
    seen_ = {(a, tuple(b)) for a, b, _, _ in dom}
    for name in codes.CLASSES:
        big = codes.sizes(name, 12 if codes.dimension(name) == 2 else (6 if tier == 'quick' else 7),
                          max_n=1600, min_n=150)
        big = [s_ for s_ in big if (name, tuple(s_)) not in seen_]
        cubic = [s_ for s_ in big if len(set(s_)) == 1]
        for s_ in dict.fromkeys(big[-2:] + cubic[-1:] + (big[::max(1, len(big) // 6)] if tier != 'quick' else [])):
            dom.append((name, tuple(s_), None, {}))
    recs = []
    meta = {}
    for name, size, dname, kw in dom:
        lab = codes.label(name, size, dname, kw)
        r = projected(lambda: codes.build(name, size, dname, kw), lab)
        if r is None:
            continue
        r['id'] = len(recs)
        r['_cost'] = (r['n'] + 1) * (len(r['stabs']) + 1)
        meta[r['id']] = ('library', lab)
        recs.append(r)
    # the same views exported from objects WITH A HISTORY: every lazily cached
    # property is read on the undeformed object (and under another
    # deformation) before the deformation under test is applied
    hist_subjects = []
    for name in codes.CLASSES:
        vs = codes.deformation_variants(name)[1:]
        if not vs:
            continue
        ms = 3 if codes.dimension(name) == 2 else 2
        ss = codes.sizes(name, ms, max_n=120) or codes.sizes(name, 4, max_n=200)
        for size in dict.fromkeys([ss[0], ss[-1]]):
            for (dname, kw) in dict.fromkeys((d, tuple(sorted(k.items()))) for d, k in vs):
                hist_subjects.append((name, size, dname, dict(kw), vs))
    def with_history(name, size, dname, kw, vs):
        code = codes.build(name, size)
        for prop in ('stabilizer_matrix', 'x_indices', 'z_indices', 'is_css', 'logicals_x',
                     'logicals_z', 'qubit_index', 'stabilizer_index', 'd', 'stabilizer_types'):
            getattr(code, prop)
        try:
            code.Hx, code.Hz
        except ValueError:
            pass
        other = vs[-1] if vs[-1] != (dname, kw) else vs[0]
        code.deform(other[0], **other[1])
        code.is_css, code.stabilizer_matrix
        code.deform(dname, **kw)
        return code

    for name, size, dname, kw, vs in hist_subjects:
        r = projected(lambda: with_history(name, size, dname, kw, vs),
                      codes.label(name, size, dname, kw) + '#after-history')
        if r is None:
            continue
        r['id'] = len(recs)
        r['_cost'] = (r['n'] + 1) * (len(r['stabs']) + 1)
        meta[r['id']] = ('library', codes.label(name, size, dname, kw) + '#after-history')
        # the reference for H itself is a fresh object deformed once
        fresh = codes.build(name, size, dname, kw)
        r['twin'] = [{'a': r['stabs'], 'b': codes.rows_to_ops(fresh.stabilizer_matrix, fresh.n)},
                     {'a': r['is_css'], 'b': bool(fresh.is_css)}]
        recs.append(r)
    n_lib = len(recs)

    # (c) hash-seed twins: attach child exports to dedicated records
    subjects = twin_subjects()
    mine = twin_export(subjects)
    seeds = ['1', '4242', 'random'] if tier == 'quick' else \
        ['1', '2', '4242', '99991', 'random', 'random']
    for hs in seeds:
        env = dict(os.environ, PYTHONHASHSEED=hs)
        p = subprocess.run([common.PY, '-W', 'ignore', '-c',
                            'from harness.c02 import child_main; child_main()'],
                           input=json.dumps(subjects), text=True, env=env,
                           cwd=common.VERIF, stdout=subprocess.PIPE,
                           stderr=subprocess.PIPE)
        if p.returncode != 0:
            raise common.MachineryError('twin export failed: ' + p.stderr[-800:])
        theirs = json.loads(p.stdout[p.stdout.index('{'):])
        for lab, a in mine.items():
            b = theirs[lab]
            r = {'id': len(recs), 'n': 0, 'qcoords': [], 'scoords': [],
                 'raw_stabs': [], 'stabs': [], 'xmask': [], 'zmask': [],
                 'is_css': True, 'hx': [], 'hz': [], 'hx_ok': True,
                 'hx_raises': False, 'conv': [], 'unconv': [], 'synd': [],
                 'api': {'coordinates_as_defined': True, 'n_stabilizers': 0, 'qubits_are_qubits': True,
                         'stabs_are_not_qubits': True, 'stabs_are_stabs': True,
                         'qubits_are_not_stabs': True, 'typed_membership': True,
                         'type_index': [], 'qubit_index': [], 'stabilizer_index': []},
                 'twin': [{'a': a[k], 'b': b[k]} for k in a]}
            meta[r['id']] = ('twin', f'{lab}#hashseed')
            recs.append(r)
    n_twin = len(recs) - n_lib

    # (b) user-defined codes from the model
    defs, model = user_defs(tier, work)
    for d in defs:
        r = projected(lambda: make_user_code(d, rng), 'user-defined(' + json.dumps(d)[:60],
                      n_conv=3, n_synd=4)
        if r is None:
            continue
        r['id'] = len(recs)
        r['_cost'] = 4
        meta[r['id']] = ('user', json.dumps(d))
        recs.append(r)
    # generators whose weight passes 255 (counts kept in 8 bits wrap there)
    for nq_, wx_ in ((256, 256), (300, 256), (257, 257)):
        big = {'nq': nq_, 'stabs': [[[q, 'X'] for q in range(wx_)], [[q, 'Z'] for q in range(nq_)]]}
        r = projected(lambda: make_user_code(big, rng), f'user-defined(weight {wx_} on {nq_} qubits',
                      n_conv=3, n_synd=4)
        if r is None:
            continue
        r['id'] = len(recs)
        r['_cost'] = 600
        meta[r['id']] = ('user', json.dumps({'nq': nq_, 'generators': f'X^{wx_} and Z^{nq_}'}))
        recs.append(r)
    n_user = len(defs)

    rejects, st = common.eval_records('C02_Data', recs, 'c02', shards=16)
    for rid, clauses in rejects.items():
        kind, lab = meta[rid]
        if kind == 'user':
            key = 'C02:user-defined:' + ','.join(sorted(clauses))
        else:
            key = f'C02:{lab}'
        v.reject(key, {'kind': kind, 'case': lab, 'failed_clauses': clauses})
    rc = v.finish()
    common.cleanup(work)
    common.write_evidence(
        'C02', tier, 'model_checking',
        {
            'states': st['distinct'] + model['distinct'],
            'transitions': st['generated'] + model['generated'],
            'traces_validated_against_impl': len(recs),
            'samples': [
                {'library': meta[0][1]},
                {'library': meta[n_lib // 2][1]},
                {'twin': meta[n_lib][1]},
                {'user_defined': json.loads(meta[n_lib + n_twin][1])},
                {'user_defined': json.loads(meta[len(recs) - 1][1])},
            ],
            'evaluations': len(recs),
            'distinct_nontrivial': n_lib + n_user,
            'rule': 'library: one record per (class,size,deformation,axis) of '
                    'the C01 domain; user-defined: every lattice definition '
                    'enumerated by C02_Model (all non-empty X/Y/Z supports); '
                    'twins: exports from child interpreters with other hash '
                    'seeds; each record carries conversion round trips and '
                    'syndromes that TLC re-derives',
            'library_objects': n_lib, 'user_defined_codes': n_user,
            'hash_seed_twins': n_twin, 'hash_seeds': seeds,
            'model_states': model['distinct'],
            'exhaustive': True,
        },
        time.time() - t0, len(v.violations),
        assumptions=['random operators/errors per object are seeded by '
                     'VERIF_SEED', 'supported families: domain/supported.json'])
    print(f'C02 {tier}: {n_lib} library objects, {n_user} user-defined codes, '
          f'{n_twin} hash twins, {len(rejects)} rejected, {time.time()-t0:.1f}s')
    return rc


def main():
    tier = sys.argv[1] if len(sys.argv) > 1 else 'quick'
    common.main_wrapper(lambda: run(tier))


if __name__ == '__main__':
    main()
