"""C12, "stopped at any point ... by KeyboardInterrupt": REAL trials (real codes,
noise models and decoders, no stubs) of a two-simulation batch are interrupted at
the k-th line of library code executed inside BatchSimulation.run, for k swept over
the whole run.  After the interrupt

  * run() is called again on the same object ("Simulation paused" -> resumed), and
  * a batch of fresh objects built from the same specification is run on a copy of
    the file the interrupted run left behind,

and both must complete without error with exactly the requested trials, equally
long lists, and the trials the file held after the interrupt kept as a prefix.
The records are judged by C12_Data.tla (kind "point").

The interrupt is delivered by a trace function that raises KeyboardInterrupt at
the k-th 'line' or 'call' event whose code lives in the panqec package - the
places where the interpreter can deliver a real Ctrl-C inside library code.
"""
import contextlib
import io
import json
import os
import shutil
import sys
import zlib

import numpy as np

import panqec
from panqec.codes import (Toric2DCode, Toric3DCode, RotatedPlanar3DCode, XCubeCode, Planar2DCode,
                          RotatedPlanar2DCode)
from panqec.error_models import PauliErrorModel
from panqec import decoders as PD
from panqec.simulation import BatchSimulation, DirectSimulation

from . import common

ROOT = os.path.dirname(panqec.__file__) + os.sep
N_TRIALS = 3

SUBJECTS = {
    # name: (decoder class, decoder kwargs, code factory, code deformation, noise kwargs)
    'bposd': ('BeliefPropagationOSDDecoder', {'max_bp_iter': 5, 'osd_order': 0}, lambda: Toric2DCode(3, 3), None, {}),
    'bposd-xzzx': ('BeliefPropagationOSDDecoder', {'max_bp_iter': 5, 'osd_order': 0},
                   lambda: RotatedPlanar2DCode(3, 3), 'XZZX', {'deformation_name': 'XZZX'}),
    'unionfind': ('UnionFindDecoder', {}, lambda: Toric2DCode(3, 4), None, {}),
    'matching': ('MatchingDecoder', {}, lambda: Planar2DCode(3, 3), None, {}),
    'mbp': ('MemoryBeliefPropagationDecoder', {'max_bp_iter': 4}, lambda: Toric2DCode(3, 3), None, {}),
    'sweepmatch': ('SweepMatchDecoder', {}, lambda: Toric3DCode(3, 3, 3), None, {}),
    'rotsweepmatch': ('RotatedSweepMatchDecoder', {'max_rounds': 4}, lambda: RotatedPlanar3DCode(3, 3, 2), None, {}),
    'xcube': ('XCubeMatchingDecoder', {}, lambda: XCubeCode(2, 2, 2), None, {}),
    # the same (code, noise, decoder, rate) twice in one batch (a repeated rate in a
    # specification): two simulations with identical inputs, each with its own trials
    'matching-twice': ('MatchingDecoder', {}, lambda: Toric2DCode(3, 3), None, {}),
    # two simulations that differ in the seventh decimal of one noise parameter only
    # (infinite bias next to a very high finite bias): two simulations, two records
    'matching-near': ('MatchingDecoder', {}, lambda: Toric2DCode(3, 3), None, {}),
}


class Interrupter:
    """Raises KeyboardInterrupt at the k-th line/call event in library code."""

    def __init__(self, k):
        self.k, self.n, self.where = k, 0, ''

    def _hit(self, frame):
        self.n += 1
        if self.n == self.k:
            self.where = f'{frame.f_code.co_filename[len(ROOT):]}:{frame.f_code.co_name}:{frame.f_lineno}'
            sys.settrace(None)
            raise KeyboardInterrupt('injected')

    def local(self, frame, event, arg):
        if event == 'line':
            self._hit(frame)
        return self.local

    def __call__(self, frame, event, arg):
        if event == 'call' and frame.f_code.co_filename.startswith(ROOT):
            self._hit(frame)
            return self.local
        return None


def build(subject, out, save_frequency, compressed, generation=0):
    dname, dkw, mk, cdef, nkw = SUBJECTS[subject]
    code = mk()
    if cdef:
        code.deform(cdef)
    em = PauliErrorModel(0.2, 0.3, 0.5, **nkw)
    batch = BatchSimulation(out, save_frequency=save_frequency, update_frequency=1000, verbose=False)
    near = subject.endswith('-near')
    for j, p in enumerate((0.15, 0.3) if not (subject.endswith('-twice') or near) else (0.3, 0.3)):
        if near:
            em = PauliErrorModel(0.0, 0.0, 1.0) if j == 0 else PauliErrorModel(1e-7, 0.0, 1.0 - 1e-7)
        dec = getattr(PD, dname)(code, em, p, **dkw)
        # (a later generation of objects draws other errors: trials that were saved can then
        # be told from trials that were run again)
        batch.append(DirectSimulation(code, em, dec, p, rng=np.random.default_rng(int(p * 100) + j + 1000 * generation),
                                      verbose=False, compress=compressed))
    return batch


def _trial_ids(res):
    """one integer per trial (its effective error, success and codespace flags)"""
    ee, su, cs = res.get('effective_error', []), res.get('success', []), res.get('codespace', [])
    ids = []
    for j in range(max(len(ee), len(su), len(cs))):
        t = (tuple(int(x) for x in np.asarray(ee[j]).ravel()) if j < len(ee) else None,
             bool(su[j]) if j < len(su) else None, bool(cs[j]) if j < len(cs) else None)
        ids.append(zlib.crc32(repr(t).encode()) % 1000003 + 1)
    return ids


def _summary(res):
    return {'n': int(res.get('n_runs', -1)),
            'lens': [len(res.get('effective_error', [])), len(res.get('success', [])),
                     len(res.get('codespace', []))],
            'ids': _trial_ids(res)}


def read_file(path):
    if not os.path.exists(path):
        return {'kind': 'absent', 'sims': []}
    try:
        from panqec.utils import load_json
        data = load_json(path)
        if isinstance(data, dict):
            data = [data]
        return {'kind': 'valid', 'sims': [_summary(r['results']) for r in data]}
    except Exception as ex:
        return {'kind': 'corrupt', 'sims': [], 'why': f'{type(ex).__name__}'}


def run_quietly(batch, n_trials=None):
    try:
        with contextlib.redirect_stdout(io.StringIO()):
            batch.run(n_trials or N_TRIALS)
        return ''
    except BaseException as ex:          # KeyboardInterrupt included: run() must end quietly
        sys.settrace(None)
        return f'{type(ex).__name__}: {ex}'[:120]


def one_point(subject, k, work, save_frequency, compressed):
    d = os.path.join(work, f'{subject}-{k}-{save_frequency}-{int(compressed)}')
    os.makedirs(d, exist_ok=True)
    out = os.path.join(d, 'results.json' + ('.gz' if compressed else ''))
    try:
        batch = build(subject, out, save_frequency, compressed)
        hook = Interrupter(k)
        sys.settrace(hook)
        try:
            first = run_quietly(batch)
        finally:
            sys.settrace(None)
        rec = {'kind': 'point', 'subject': subject, 'k': k, 'fired': hook.n >= k, 'where': hook.where,
               # run()'s own first line lies before its try block: a Ctrl-C there goes to the caller
               'inside_try': not hook.where.startswith('simulation/_batch_simulation.py:run:'),
               'events': hook.n, 'target': N_TRIALS, 'nsims': 2, 'first_raised': first,
               'after_interrupt': read_file(out)}
        # a batch of fresh objects resumes from a copy of what the interrupted run left
        out2 = os.path.join(d, 'copy.json' + ('.gz' if compressed else ''))
        if os.path.exists(out):
            shutil.copyfile(out, out2)
        # ... and the same object is run again
        rec['same_raised'] = run_quietly(batch)
        rec['same_file'] = read_file(out)
        rec['same_mem'] = [_summary(dict(s.results)) for s in batch._simulations]
        fresh = build(subject, out2, save_frequency, compressed, generation=1)
        rec['fresh_raised'] = run_quietly(fresh)
        rec['fresh_file'] = read_file(out2)
        return rec
    finally:
        shutil.rmtree(d, ignore_errors=True)


@common.safe
def long_run(item):
    """Scale: one batch taken to more than 10 000 / 2**15 trials in two sessions (the
    second resumes the file of the first), no interrupt: the file must hold exactly
    the requested trials and keep the first session's as a prefix."""
    subject, first, target, save_frequency, compressed, work = item
    d = os.path.join(work, f'long-{subject}-{target}')
    os.makedirs(d, exist_ok=True)
    out = os.path.join(d, 'results.json' + ('.gz' if compressed else ''))
    try:
        b1 = build(subject, out, save_frequency, compressed)
        r1 = run_quietly(b1, first)
        rec = {'kind': 'point', 'subject': subject + '-long', 'k': 0, 'fired': False, 'where': '',
               'inside_try': True, 'events': 0, 'target': target, 'nsims': 2, 'first_raised': r1,
               'after_interrupt': read_file(out)}
        out2 = os.path.join(d, 'copy.json' + ('.gz' if compressed else ''))
        shutil.copyfile(out, out2)
        rec['same_raised'] = run_quietly(b1, target)
        rec['same_file'] = read_file(out)
        rec['same_mem'] = [_summary(dict(s.results)) for s in b1._simulations]
        fresh = build(subject, out2, save_frequency, compressed, generation=1)
        rec['fresh_raised'] = run_quietly(fresh, target)
        rec['fresh_file'] = read_file(out2)
        return [rec]
    finally:
        shutil.rmtree(d, ignore_errors=True)


def count_events(subject, work):
    r = one_point(subject, 10 ** 12, work, 1, False)
    return r['events']


@common.safe
def sweep(item):
    subject, ks, work, save_frequency, compressed = item
    return [one_point(subject, k, work, save_frequency, compressed) for k in ks]


def plan(tier, work):
    """(subject, ks, ...) jobs: the first trial (where everything lazy is built) is
    swept densely, the rest with a stride."""
    jobs = []
    for si, subject in enumerate(SUBJECTS):
        total = count_events(subject, work)
        dense = 400 if tier == 'quick' else 4000
        n_sparse = 150 if tier == 'quick' else 1500
        ks = list(range(1, min(total, dense) + 1, 2 if tier == 'quick' else 1))
        if total > dense:
            stride = max(1, (total - dense) // n_sparse)
            ks += list(range(dense + 1 + si % stride, total + 1, stride))
        ks.append(total)              # the very last line of the run
        ks = sorted(set(ks))
        chunk = 40
        for c in range(0, len(ks), chunk):
            part = ks[c:c + chunk]
            sel = (si + c // chunk)
            jobs.append((subject, part, work, 1 + sel % 2, sel % 3 == 0))
    return jobs


def run(tier):
    work = common.scratch_dir('c12pts')
    jobs = plan(tier, work)
    out = common.pmap(sweep, jobs, procs=15)
    longs = [('matching', 10000, 10005, 2500, False, work), ('matching', 9000, 12003, 500, True, work)]
    if tier != 'quick':
        longs += [('unionfind', 2 ** 15 - 3, 2 ** 15 + 6, 5000, False, work), ('matching', 65530, 65541, 30000, True, work)]
    out += common.pmap(long_run, longs, procs=4)
    recs = []
    for o in out:
        if isinstance(o, list):
            recs += o
        else:
            recs.append(o)           # a raised-marker from common.safe
    common.cleanup(work)
    return recs
