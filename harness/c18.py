"""C18 - error probabilities multiply per qubit and normalise.

model: Noise_Model.tla (shared with C07) checks normalisation of products and
that the sampler's measure is the channel.
code -> spec: error_probability(e) for ALL 4^n errors of library codes with
n <= 6 (quick) / 8 (thorough) on a decimal channel grid (linear and log
output) - TLC recomputes the product of per-qubit numerators and the sum over
all errors; on larger codes a dyadic channel makes -log2 P(e) an exact integer
that TLC recomputes as a sum of per-qubit exponents; every likelihood the
splitting method's Metropolis step evaluates is recorded and judged the same
way.
"""
import itertools
import math
import sys
import time

import numpy as np

from . import codes, common
from panqec.error_models import PauliErrorModel
from panqec.decoders import BeliefPropagationOSDDecoder
from panqec.simulation import SplittingSimulation

CHANS = [(7, 1, 1, 1), (5, 1, 1, 3), (9, 0, 0, 1), (4, 3, 2, 1), (10, 0, 0, 0),
         (0, 5, 3, 2), (6, 0, 3, 1), (8, 1, 0, 1), (0, 0, 10, 0)]
XZ = {(0, 0): 'I', (1, 0): 'X', (1, 1): 'Y', (0, 1): 'Z'}


def model_of(chan, dn, kw):
    i, x, y, z = chan
    pn = x + y + z
    if pn == 0:
        return PauliErrorModel(1.0, 0.0, 0.0, deformation_name=dn, deformation_kwargs=dict(kw)), 0.0
    # a rate of exactly 0 or 1 is often written as an integer literal (and JSON
    # input files give "r_x": 0): both spellings are legal
    def lit(v):
        f = v / pn
        return int(f) if f in (0.0, 1.0) and (dn is not None or (x + 2 * y + 3 * z) % 2 == 0) else f
    return PauliErrorModel(lit(x), lit(y), lit(z), deformation_name=dn,
                           deformation_kwargs=dict(kw)), pn / 10


def dtable(code, dn, kw):
    if dn is None:
        return [['X', 'Y', 'Z']] * code.n
    out = []
    for q in range(code.n):
        d = code.get_deformation(tuple(code.qubit_coordinates[q]), dn, **kw)
        out.append([d['X'], d['Y'], d['Z']])
    return out


def small_subjects(tier):
    hi = 6 if tier == 'quick' else 7
    out = []
    for name in codes.CLASSES:
        ms = hi if codes.dimension(name) == 2 else 3
        ss = [s for s in codes.sizes(name, ms, max_n=hi, min_n=2)]
        if name == 'Color666PlanarCode':
            ss = ss[:1]
        ss = sorted(ss, key=lambda s: -codes.qubit_count(name, s))[:(1 if tier == 'quick' else 2)]
        for size in ss:
            vs = codes.deformation_variants(name)
            if len(vs) > 1:
                # the variant that really relabels qubits of this (small) lattice
                code = codes.build(name, size)

                def deformed_qubits(v):
                    return sum(1 for row in dtable(code, v[0], v[1]) if row != ['X', 'Y', 'Z'])
                best = max(vs[1:], key=deformed_qubits)
                vs = vs[:1] + [best]
            for dn, kw in vs:
                out.append((name, size, dn, kw))
    return out


def use_model(em, code, p):
    """Let the model object serve its other consumers on this (code, rate)
    first: matching weights, a decoder that reads (and conditionally updates)
    the channel, the sampler.  None of them may change what error_probability
    reports afterwards."""
    import contextlib
    import io
    with contextlib.redirect_stdout(io.StringIO()):
        em.get_weights(code, p)
        em.get_weights(code, p)
        rng = np.random.default_rng(5)
        e = np.asarray(em.generate(code, p, rng=rng)).ravel()
        if 0 < p < 1:
            for cu in (False, True):
                dec = BeliefPropagationOSDDecoder(code, em, p, max_bp_iter=5, osd_order=0,
                                                  channel_update=cu)
                dec.decode(code.measure_syndrome(e))
                dec.decode(code.measure_syndrome(e))
        em.probability_distribution(code, p)


def drive_all(item, em=None, used=False):
    name, size, dn, kw, chan = item
    code = codes.build(name, size)
    n = code.n
    if em is None:
        em, p = model_of(chan, dn, kw)
    else:
        p = sum(chan[1:]) / 10
    if used:
        use_model(em, code, p)
    N = 4 ** n
    scale = 10 ** n
    lin, logx = [], []
    for t in range(N):
        e = np.zeros(2 * n, dtype=np.uint8)
        for q in range(n):
            d = (t // 4 ** q) % 4
            e[q] = d in (1, 2)
            e[n + q] = d in (2, 3)
        # the error comes in the array types callers use
        # (the choice mixes all digits of t: t % 4 alone is the letter on qubit 0)
        dsel = sum((t // 4 ** q) % 4 for q in range(n + 1)) % 4
        ev = e if dsel == 0 else (e.astype(np.int64) if dsel == 1 else
                                  (e.astype(bool) if dsel == 2 else e.astype(np.uint64)))
        f = float(em.error_probability(ev, code, p))
        with np.errstate(divide='ignore'):
            # the flag as callers produce it: True, a numpy boolean, 1
            lg = float(em.error_probability(ev, code, p, log_output=(True, np.True_, 1)[t % 3]))
        k = round(f * scale)
        lin.append(int(k) if abs(f * scale - k) <= 1e-9 * max(1.0, k) else -1)
        g = math.exp(lg) if lg > -700 else 0.0
        k2 = round(g * scale)
        logx.append(int(k2) if abs(g * scale - k2) <= 1e-6 * max(1.0, k2) else -1)
    return {'kind': 'all', 'n': int(n), 'chan': list(chan), 'D': dtable(code, dn, kw),
            'lin': lin, 'logx': logx, 'obs': [], 'exps': [0, 0, 0],
            '_label': f'{codes.label(name, size, dn, kw)} chan={chan}', '_cost': N * n}


@common.safe
def drive_all_safe(item):
    return drive_all(item)


@common.safe
def drive_used_safe(item):
    r = drive_all(item, used=True)
    r['_label'] += ' (after the model served get_weights / decoders / generate)'
    return r


SHARED_GROUPS = [
    [('RotatedPlanar2DCode', (2, 3)), ('RotatedPlanar2DCode', (3, 2))],
    [('Planar2DCode', (2, 2)), ('RotatedPlanar2DCode', (1, 5)), ('RotatedPlanar2DCode', (5, 1))],
    [('RotatedPlanar2DCode', (2, 2)), ('RotatedToric3DCode', (2, 2, 1)), ('Planar3DCode', (1, 2, 2))],
    [('RotatedPlanar3DCode', (2, 3, 1)), ('RotatedPlanar3DCode', (3, 2, 1)), ('RotatedPlanar2DCode', (3, 2))],
]


@common.safe
def drive_shared(item):
    """ONE error-model object evaluated on several codes with the same number
    of qubits, back and forth: each code must get its own channel."""
    group, dn, kw, chan = item
    em, _ = model_of(chan, dn, kw)
    out = []
    for name, size in list(group) + list(reversed(group)):
        vs = [v[0] for v in codes.deformation_variants(name)]
        if dn not in vs:
            continue
        r = drive_all((name, size, dn, kw, chan), em=em)
        r['_label'] += ' (model object shared with other codes of equal n)'
        out.append(r)
    return out


def bits_of(logp):
    b = -logp / math.log(2)
    k = round(b)
    return int(k) if abs(b - k) <= 1e-7 * max(1.0, abs(k)) else -1


def observe(em, code, p, e):
    n = code.n
    with np.errstate(divide='ignore'):
        lg = float(em.error_probability(e, code, p, log_output=True))
    f = float(em.error_probability(e, code, p))
    lin_ok = (f == 0.0 and lg < -700) or abs(f - math.exp(lg)) <= 1e-9 * math.exp(lg)
    return {'letters': [XZ[(int(e[q]), int(e[n + q]))] for q in range(n)],
            'bits': bits_of(lg), 'lin_ok': bool(lin_ok)}


@common.safe
def drive_dyadic(item):
    name, size, dn, kw, exps, tier, seed = item
    code = codes.build(name, size)
    n = code.n
    rng = np.random.default_rng(seed)
    r = tuple(2.0 ** (1 - x) for x in exps)          # exponents of p*r: 2,3,3 permuted
    em = PauliErrorModel(*r, deformation_name=dn, deformation_kwargs=dict(kw))
    p = 0.5
    obs = []
    for dens in (0.0, 0.05, 0.3, 0.75, 1.0):
        for _ in range(4 if tier == 'quick' else 20):
            e = (rng.random(2 * n) < dens).astype(np.uint8)
            obs.append(observe(em, code, p, e))
    # likelihoods evaluated by the Metropolis step of the splitting method
    dec = BeliefPropagationOSDDecoder(code, em, p, max_bp_iter=3, osd_order=0)
    sim = SplittingSimulation(code, em, [dec], [p], n_init_runs=1, verbose=False)
    calls = []
    real = em.error_probability

    def spy(error, c, rate, log_output=False):
        v = real(error, c, rate, log_output=log_output)
        calls.append((np.array(error, copy=True), bool(log_output), float(v)))
        return v
    em.error_probability = spy
    np.random.seed(seed % 2**31)
    cur = (rng.random(2 * n) < 0.1).astype(np.uint8)
    try:
        for _ in range(10 if tier == 'quick' else 60):
            cur, lp = sim.get_next_error(dec, p, cur)
            cur = np.asarray(cur).astype(np.uint8)
            calls.append((cur.copy(), True, float(lp)))
    finally:
        del em.error_probability
    for (e, is_log, val) in calls:
        if is_log:
            e = np.asarray(e).astype(int) % 2
            obs.append({'letters': [XZ[(int(e[q]), int(e[n + q]))] for q in range(n)],
                        'bits': bits_of(val), 'lin_ok': True})
    return {'kind': 'dyadic', 'n': int(n), 'chan': [0, 0, 0, 0], 'D': dtable(code, dn, kw),
            'lin': [], 'logx': [], 'obs': obs, 'exps': list(exps),
            '_label': f'{codes.label(name, size, dn, kw)} dyadic exps={exps}',
            '_cost': len(obs) * n}


MUL = {('I', 'I'): 'I'}
for a_ in 'IXYZ':
    for b_ in 'IXYZ':
        if a_ == 'I':
            MUL[(a_, b_)] = b_
        elif b_ == 'I':
            MUL[(a_, b_)] = a_
        elif a_ == b_:
            MUL[(a_, b_)] = 'I'
        else:
            MUL[(a_, b_)] = ({'X', 'Y', 'Z'} - {a_, b_}).pop()
INF = 100000


@common.safe
def drive_metropolis(item):
    """Steps of the real SplittingSimulation.get_next_error with np.random
    scripted: the qubit, the Pauli and the coin are dictated, the bias handed
    to the coin and the list of Paulis offered are recorded."""
    import contextlib
    import io
    from panqec.decoders import MatchingDecoder
    name, size, dn, kw, exps, tier, seed = item
    code = codes.build(name, size)
    n = code.n
    rng = np.random.default_rng(seed)
    r = tuple(0.0 if x >= INF else 2.0 ** (1 - x) for x in exps)
    em = PauliErrorModel(*r, deformation_name=dn, deformation_kwargs=dict(kw))
    p = 0.5
    dec = MatchingDecoder(code, em, p)
    oracle = MatchingDecoder(code, em, p)
    script = {}

    class _Generator:
        """A generator object handed to the simulation (optional argument `rng`): the
        step must behave the same with it.  It answers from the same script."""

        def choice(self, a, size=None, replace=True, p=None):
            return choice(a, size=size, replace=replace, p=p)

        def random(self, size=None):
            return 0.0 if script.get('coin') else float(np.nextafter(1.0, 0.0))

    sim = SplittingSimulation(code, em, [dec], [p], n_init_runs=1, verbose=False,
                              **({'rng': _Generator()} if (seed // 2) % 2 else {}))

    def choice(a, size=None, replace=True, p=None):
        script['calls'] = script.get('calls', 0) + 1
        k = script['calls']
        if k == 1:
            return script['q']
        if k == 2:
            script['offered'] = [str(x) for x in a]
            return a[script['letter'] % len(a)]
        script['bias'] = float(p[1])
        return 1 if (script['coin'] and p[1] > 0) else 0

    def letters_of(e):
        e = np.asarray(e).astype(int).ravel() % 2
        return [XZ[(int(e[q]), int(e[n + q]))] for q in range(n)]

    def fails(e):
        with contextlib.redirect_stdout(io.StringIO()):
            c = np.asarray(oracle.decode(code.measure_syndrome(e))).ravel()
        t = (c + e) % 2
        return bool(code.is_logical_error(t) or not code.in_codespace(t))

    starts = [np.asarray(code.logicals_x[0]).astype(np.uint8), np.asarray(code.logicals_z[0]).astype(np.uint8)]
    cur = starts[seed % 2].copy()
    deep = str(tier).startswith('deep-')
    if deep:
        tier = tier[5:]
        # half the qubits carry the cheapest letter, half the dearest: >= 2000 bits
        cheap = min(range(3), key=lambda j: exps[j])
        dear = max(range(3), key=lambda j: (exps[j] < INF, exps[j]))
        cur = np.zeros(2 * n, dtype=np.uint8)
        for q_ in range(n):
            l_ = 'XYZ'[cheap if q_ % 2 == 0 else dear]
            cur[q_] = l_ in 'XY'
            cur[n + q_] = l_ in 'YZ'
    obs = []
    real = np.random.choice
    np.random.choice = choice
    try:
        for t in range((40 if tier == 'quick' else 300) if not deep else 16):
            script.clear()
            script.update(q=int(rng.integers(n)), letter=int(rng.integers(3)),
                          coin=bool(rng.random() < 0.8))
            with contextlib.redirect_stdout(io.StringIO()), np.errstate(divide='ignore', invalid='ignore'):
                nxt, lp = sim.get_next_error(dec, p, cur.copy())
            nxt = np.asarray(nxt).astype(np.uint8).ravel() % 2
            s = script['offered'][script['letter'] % len(script['offered'])]
            cl = letters_of(cur)
            new = list(cl)
            new[script['q']] = MUL[(cl[script['q']], s)]
            newv = np.zeros(2 * n, dtype=np.uint8)
            for q_, l_ in enumerate(new):
                newv[q_] = l_ in 'XY'
                newv[n + q_] = l_ in 'YZ'
            bias = script.get('bias', 0.0)
            if bias <= 0:
                acc = INF
            else:
                b_ = -math.log2(bias)
                acc = int(round(b_)) if abs(b_ - round(b_)) < 1e-7 else -1
            obs.append({'cur': cl, 'q': script['q'], 'offered': script['offered'], 's': s,
                        'accbits': acc, 'coin': bool(script['coin'] and bias > 0),
                        'fails': fails(newv), 'next': letters_of(nxt),
                        'repbits': bits_of(float(lp)) if np.isfinite(lp) else INF})
            cur = nxt
    finally:
        np.random.choice = real
    return {'kind': 'metropolis', 'n': int(n), 'chan': [0, 0, 0, 0], 'D': dtable(code, dn, kw),
            'lin': [], 'logx': [], 'obs': obs, 'exps': list(exps),
            '_label': f'{codes.label(name, size, dn, kw)} metropolis exps={exps}',
            '_cost': len(obs) * n}


def large_subjects(tier):
    out = []
    for name in codes.CLASSES:
        ss = codes.sizes(name, 4 if codes.dimension(name) == 2 else 3, max_n=120, min_n=9) \
            or codes.sizes(name, 4, max_n=250, min_n=9)
        if not ss:
            continue
        size = ss[-1] if tier != 'quick' else ss[len(ss) // 2]
        vs = codes.deformation_variants(name)
        for dn, kw in (vs[:1] + vs[-1:] if len(vs) > 1 else vs):
            out.append((name, size, dn, kw))
    return out


def run(tier):
    t0 = time.time()
    v = common.Verdict('C18')
    model = common.run_tlc('Noise_Model', cfg='Noise_Model_6.cfg', workers=16, timeout=1500)
    common.require_ok(model, 'Noise_Model')
    if model['violation']:
        raise common.MachineryError('Noise_Model violated')
    smodel = common.run_tlc('Splitting_Model', workers=16, timeout=1500)
    common.require_ok(smodel, 'Splitting_Model')
    if smodel['violation']:
        raise common.MachineryError('Splitting_Model violated:\n' + smodel['stdout'][-1500:])
    jobs = []
    for k, (name, size, dn, kw) in enumerate(small_subjects(tier)):
        chans = [CHANS[(k + j) % len(CHANS)] for j in range(5)] if tier != 'quick' else [CHANS[k % len(CHANS)], CHANS[(k + 3) % len(CHANS)], CHANS[3]]
        if dn is not None:
            chans = list(chans) + [(0, 5, 3, 2), (6, 0, 3, 1)]     # a zero that the deformation moves
        for chan in dict.fromkeys(chans):
            jobs.append((name, size, dn, kw, chan))
    recs = common.pmap(drive_all_safe, jobs, procs=15)
    # the same model object after it has served its other consumers
    ujobs = [j for j in jobs if j[4] in ((4, 3, 2, 1), (7, 1, 1, 1), (5, 1, 1, 3))]
    if tier == 'quick':
        ujobs = ujobs[::2]
    recs += common.pmap(drive_used_safe, ujobs, procs=15)
    shared = []
    for gi, group in enumerate(SHARED_GROUPS):
        for chan in ((5, 1, 1, 3), (4, 3, 2, 1)) if tier == 'quick' else CHANS[:6]:
            for dn, kw in (('XZZX', {}), ('XZZX', {'deformation_axis': 'x'})):
                shared.append((group, dn, kw, chan))
    for x in common.pmap(drive_shared, shared, procs=15):
        recs += x if isinstance(x, list) else [x]
    perms = list(itertools.permutations((2, 3, 3)))
    djobs = []
    for k, (name, size, dn, kw) in enumerate(large_subjects(tier)):
        for exps in (sorted(set(perms)) if tier != 'quick' else [sorted(set(perms))[k % 3]]):
            djobs.append((name, size, dn, kw, exps, tier, common.seed() + k))
    recs += common.pmap(drive_dyadic, djobs, procs=15)
    # the Metropolis step itself, driven with a scripted np.random
    mjobs = []
    for k, (name, size) in enumerate([('RotatedPlanar2DCode', (3, 3)), ('Toric2DCode', (2, 3)),
                                      ('Planar2DCode', (2, 3)), ('RotatedPlanar2DCode', (2, 4))]):
        vs = codes.deformation_variants(name)
        for dn, kw in (vs[:1] + vs[-1:]):
            for exps in [(2, 3, 3), (3, 2, 3), (3, 3, 2), (2, 2, INF), (INF, 2, 2), (1, INF, INF)][:: (2 if tier == 'quick' else 1)]:
                mjobs.append((name, size, dn, kw, exps, tier, common.seed() + k + len(mjobs)))
    # the deep tail: a heavy error on a large lattice, where the likelihood of the
    # whole error is far below the smallest float (2^-1074) - the ratio of two
    # such likelihoods is still an ordinary number and is what the step must use
    for k, exps in enumerate([(2, 3, 3), (3, 2, 3)] if tier == 'quick' else [(2, 3, 3), (3, 2, 3), (3, 3, 2)]):
        mjobs.append(('Toric2DCode', (20, 20), None, {}, exps, 'deep-' + tier, common.seed() + 900 + k))
    recs += common.pmap(drive_metropolis, mjobs, procs=15)
    recs = common.split_raised('C18', v, recs)
    for j, r in enumerate(recs):
        r['id'] = j
    rejects, st = common.eval_records('C18_Data', recs, 'c18', shards=16, heap='4g')
    for r in recs:
        if r['id'] in rejects:
            cl = sorted(rejects[r['id']])
            v.reject('C18:' + r['kind'] + ':' + ','.join(cl),
                     {'case': r['_label'], 'failed': cl,
                      'first_values': (r['lin'][:8] if r['kind'] == 'all' else r['obs'][:2])})
    def _corrupt(r):
        if r['kind'] != 'all' or r['n'] > 4:
            return None
        r['lin'][0] += 1
        return r
    common.binding_selftest('c18', 'C18_Data', [r for r in recs if r['id'] not in rejects], _corrupt, cfg='C18_Data.cfg')
    rc = v.finish()
    n_all = sum(len(r['lin']) for r in recs)
    n_dy = sum(len(r['obs']) for r in recs)
    common.write_evidence(
        'C18', tier, 'model_checking',
        {
            'states': model['distinct'] + smodel['distinct'] + st['distinct'],
            'transitions': model['generated'] + st['generated'],
            'traces_validated_against_impl': len(recs),
            'samples': [{'case': r['_label'], 'kind': r['kind'],
                         'values': (r['lin'][:6] if r['kind'] == 'all' else r['obs'][0])}
                        for r in recs[::max(1, len(recs) // 5)][:6]],
            'evaluations': 2 * n_all + n_dy,
            'distinct_nontrivial': n_all + n_dy - len(recs),
            'rule': 'all: every one of the 4^n errors of small library codes '
                    '(plain and deformed noise) on decimal channels incl. '
                    'r_y > 0, faces and vertices, p = 0 and p = 1, linear and '
                    'log output; dyadic: random errors of all densities on '
                    'larger codes of every class + every likelihood the '
                    'splitting method evaluates; non-trivial = not the '
                    'identity error',
            'errors_exhaustive': n_all, 'errors_dyadic': n_dy, 'exhaustive': True,
        },
        time.time() - t0, len(v.violations),
        assumptions=['floats are accepted as the integer numerator when within '
                     '1e-9 relative (linear) / 1e-6 (exp of log) of it',
                     'dyadic channel (1/2, 1/4, 1/8, 1/8): -log2 P is an exact '
                     'integer; accepted within 1e-7 relative'])
    print(f'C18 {tier}: {len(recs)} records, {n_all} errors exhaustively, {n_dy} dyadic '
          f'observations, {len(rejects)} rejected, {time.time()-t0:.1f}s')
    return rc


def main():
    tier = sys.argv[1] if len(sys.argv) > 1 else 'quick'
    common.main_wrapper(lambda: run(tier))


if __name__ == '__main__':
    main()
