"""C09 - matching is exactly minimum-weight; correctable sets are corrected.

code -> spec (C09_Data.tla):
(1) optimality - for small 2-D lattices and every noise model with flip
    marginals < 1/2 (uniform, pure, biased, XZZX-deformed on each axis; several
    rates) the matching decoder's correction for every valid syndrome (all of
    them on small lattices) is compared, sector by sector, with the minimum
    cost over the FULL coset of solutions, computed by TLC by dynamic
    programming;
(2) correctable sets - every Pauli error of weight <= floor((d-1)/2) (all
    supports, all X/Y/Z assignments) on toric / planar / rotated planar
    lattices is decoded by matching (and union-find on the toric code) with
    uniform weights and the residual must be a stabilizer; TLC also checks
    that the set of errors is the whole domain LowWeight(n, t);
(3) the sweep-match decoders on their home lattices with d >= 3: every
    single-qubit Pauli error.
"""
import itertools
import sys
import time

import numpy as np

from . import codes, common, decoders as D
from panqec.config import DECODERS

SCALE = 10000


def int_weights(w):
    return [int(round(float(x) * SCALE)) for x in w]


def checks(H):
    return [sorted(int(c) for c, v in zip(H.getrow(i).indices, H.getrow(i).data) if v)
            for i in range(H.shape[0])]


@common.safe
def optimal(item):
    cname, size, noise, ndef, ndkw, p, tier = item
    code = codes.build(cname, tuple(size))
    n = code.n
    em = D.make_noise(noise, ndef, ndkw)
    dec = DECODERS['MatchingDecoder'](code, em, p)
    # the TRUE log-likelihood weights, derived here from the per-qubit channel
    # (not taken from get_weights, whose correctness is part of what is judged)
    pi_, px_, py_, pz_ = em.probability_distribution(code, p)
    eps = 1e-20
    wx = -np.log((px_ + py_ + eps) / (1 - (px_ + py_) + eps))
    wz = -np.log((pz_ + py_ + eps) / (1 - (pz_ + py_) + eps))
    xi = np.nonzero(np.asarray(code.x_indices))[0]
    zi = np.nonzero(np.asarray(code.z_indices))[0]
    rng = np.random.default_rng(common.seed() + n)
    allsyn = D.all_syndromes(code, 600 if tier == 'quick' else 5000)
    if allsyn is None:
        syns = []
        for wt in (1, 2):
            for qs in itertools.combinations(range(2 * n), wt):
                e = np.zeros(2 * n, dtype=np.uint8)
                e[list(qs)] = 1
                syns.append(np.asarray(code.measure_syndrome(e)).ravel())
                if len(syns) > (400 if tier == 'quick' else 3000):
                    break
        for rate in (0.05, 0.15, 0.3):
            for _ in range(60 if tier == 'quick' else 400):
                syns.append(np.asarray(code.measure_syndrome(em.generate(code, rate, rng=rng))).ravel())
        allsyn = list({s.tobytes(): s for s in syns}.values())
        mode = 'sampled syndromes'
    else:
        mode = 'all valid syndromes'
    decodes = []
    for j_, s in enumerate(allsyn):
        s = s.astype(np.uint8)
        c = np.asarray(dec.decode(s.astype([np.uint8, bool, np.int64][j_ % 3]))).ravel()
        sx = [int(k) for k, j in enumerate(xi) if s[j]]        # X-type checks fired
        sz = [int(k) for k, j in enumerate(zi) if s[j]]
        decodes.append({'sx': sx, 'sz': sz,
                        'cx': [int(q) for q in np.nonzero(c[:n])[0]],
                        'cz': [int(q) for q in np.nonzero(c[n:])[0]]})
    return {'kind': 'optimal', 'n': int(n), 'xchecks': checks(code.Hx), 'zchecks': checks(code.Hz),
            'wx': int_weights(wx), 'wz': int_weights(wz), 'slack': n + 1, 'decodes': decodes,
            'obs': [], 'k': 0, 'stabs': [], 'lx': [], 'lz': [], 't': 0, 'd': 0, 'complete': False,
            '_size': list(size),
            '_label': f'MatchingDecoder@{cname}{tuple(size)}/{noise}{"+" + ndef if ndef else ""}/p={p} ({mode})',
            '_cost': (2 ** max(len(xi), len(zi))) * n + len(decodes) * n}


def clustered_sector_errors(code, t, tier):
    """X-only and Z-only errors of weight <= t whose qubits lie within a small
    window, for windows anchored all over the lattice - in particular around
    the first and last stabilizer indices.  (A union-find / matching decoder
    treats the two sectors independently and far-apart errors independently,
    so clustered single-sector errors are where weight-t failures live.)"""
    n = code.n
    qc = np.array(code.qubit_coordinates)
    lim = 2 * np.array(code.size)
    sc = np.array(code.stabilizer_coordinates)
    anchors = list(range(0, len(sc), 2)) if tier != 'quick' else \
        sorted({0, 1, len(sc) // 2 - 1, len(sc) // 2, len(sc) - 1, len(sc) // 3, (2 * len(sc)) // 3})
    seen = set()
    out = []
    for a in anchors:
        d = np.abs(qc - sc[a])
        d = np.minimum(d, lim - d).sum(axis=1)            # toroidal L1 distance
        near = [int(q) for q in np.nonzero(d <= 4)[0]]
        for w in range(1, t + 1):
            for qs in itertools.combinations(near, w):
                if qs in seen:
                    continue
                seen.add(qs)
                for half in (0, n):
                    e = np.zeros(2 * n, dtype=np.uint8)
                    e[[half + q for q in qs]] = 1
                    out.append(e)
    return out


def low_weight_errors(n, t):
    out = [np.zeros(2 * n, dtype=np.uint8)]
    letters = [(1, 0), (1, 1), (0, 1)]
    for w in range(1, t + 1):
        for qs in itertools.combinations(range(n), w):
            for ls in itertools.product(letters, repeat=w):
                e = np.zeros(2 * n, dtype=np.uint8)
                for q, (x, z) in zip(qs, ls):
                    e[q], e[n + q] = x, z
                out.append(e)
    return out


@common.safe
def correctable(item):
    dname, cname, size, t, cap, tier, sweep = item
    code = codes.build(cname, tuple(size))
    n = code.n
    em = D.make_noise('depol')
    dkw = {}
    if isinstance(sweep, dict):
        dkw, sweep = dict(sweep), True       # sweep-match built with non-default options
    dec = DECODERS[dname](code, em, 0.1, **dkw)
    if isinstance(sweep, tuple) and sweep[0] == 'clustered':
        errs = clustered_sector_errors(code, t, tier)[sweep[1]::sweep[2]]
        complete = False
        cap = None
    else:
        errs = low_weight_errors(n, t)
        complete = True
    if cap and len(errs) > cap:
        rng = np.random.default_rng(common.seed() + n)
        keep = set(int(j) for j in rng.permutation(len(errs))[:cap]) | set(range(1 + 3 * n))
        errs = [e for j, e in enumerate(errs) if j in keep]
        complete = False
    obs = []
    # the caller's syndrome comes in the array types callers really use
    dts = [np.uint8, bool, np.int64, np.uint8, np.uint64]
    for j_, e in enumerate(errs):
        s = np.asarray(code.measure_syndrome(e)).ravel().astype(dts[j_ % len(dts)])
        raised = ''
        c = np.zeros(2 * n, dtype=np.uint8)
        try:
            with common.time_limit(10):
                c = np.asarray(dec.decode(s)).ravel() % 2
                if sweep is True or (j_ + j_ // 3 + j_ // 9) % 3 == 0:
                    # the caller still holds the measured syndrome: decoding the
                    # SAME array again must correct the error just as well
                    c = np.asarray(dec.decode(s)).ravel() % 2
        except Exception as ex:
            raised = f'{type(ex).__name__}: {ex}'[:80]
        obs.append({'e': codes.bsf_to_op(e, n), 'c': codes.bsf_to_op(c, n), 'raised': raised})
    rec = codes.project(code)
    rec.update({'kind': 'correctable', 'obs': obs, 't': int(t), 'complete': complete,
                'xchecks': [], 'zchecks': [], 'wx': [], 'wz': [], 'slack': 0, 'decodes': [],
                '_size': list(size),
                '_label': f'{dname}@{cname}{tuple(size)} t={t}' + ('' if complete else ' (sampled)')
                          + (f' {dkw}' if dkw else ''),
                '_cost': len(obs) * n * 2})
    return rec


def domain(tier):
    opt, cor = [], []
    rates = [0.05, 0.3] if tier == 'quick' else [0.02, 0.1, 0.2, 0.4]
    lat = [('Toric2DCode', (2, 2)), ('Toric2DCode', (2, 3)), ('Planar2DCode', (2, 2)),
           ('Planar2DCode', (2, 3)), ('RotatedPlanar2DCode', (3, 3)), ('RotatedPlanar2DCode', (3, 4)),
           ('RotatedPlanar2DCode', (2, 5))]
    if tier != 'quick':
        lat += [('Toric2DCode', (3, 3)), ('Planar2DCode', (3, 3)), ('Planar2DCode', (2, 4)),
                ('RotatedPlanar2DCode', (4, 4)), ('RotatedPlanar2DCode', (3, 5)), ('Toric2DCode', (2, 4))]
    for cname, size in lat:
        noises = [('depol', None, None), ('X', None, None), ('Z', None, None), ('Zbias', None, None),
                  ('Zbias', 'XZZX', {'deformation_axis': 'x'}), ('Zbias', 'XZZX', {'deformation_axis': 'y'})]
        if tier == 'quick':
            noises = [noises[0], noises[3], noises[4], noises[5]]
        for (nz, nd, ndkw) in noises:
            for p in rates:
                opt.append((cname, list(size), nz, nd, ndkw, p, tier))
    # a rate above 1/2 whose flip marginals are still below 1/2 (the clause is about the
    # marginals), deformed so that the weights differ inside a sector
    for cname, size in [('RotatedPlanar2DCode', (3, 4)), ('Toric2DCode', (2, 3)), ('Planar2DCode', (2, 3))] + \
            ([('RotatedPlanar2DCode', (4, 4)), ('Toric2DCode', (3, 3))] if tier != 'quick' else []):
        for ax in ('x', 'y'):
            opt.append((cname, list(size), 'XZmix', 'XZZX', {'deformation_axis': ax}, 0.7, tier))
    # correctable sets (uniform weights)
    L = 5 if tier == 'quick' else 6
    # (the thorough tier without a cap - 520 000 errors - ran for more than an hour, with a cap of
    # 8000 per record for more than 45 minutes next to another check: capped at 4000, sides <= 6)
    cap = 2500 if tier == 'quick' else 4000
    for cname in ('Toric2DCode', 'Planar2DCode', 'RotatedPlanar2DCode'):
        for size in codes.sizes(cname, L):
            if min(size) < 2:
                continue
            d = codes.build(cname, size).d
            t = (d - 1) // 2
            if t < 1 or t > 2:
                continue
            if tier == 'quick' and (t == 2 and size[0] != size[1]):
                continue
            cor.append(('MatchingDecoder', cname, list(size), t, cap, tier, False))
            if cname == 'Toric2DCode':
                cor.append(('UnionFindDecoder', cname, list(size), t,
                            (800 if tier == 'quick' else 6000), tier, False))
    # d = 7 tori (t = 3): clustered single-sector errors, anchored everywhere
    for size in ([(7, 7)] if tier == 'quick' else [(7, 7), (7, 8)]):
        for part in range(14):
            cor.append(('UnionFindDecoder', 'Toric2DCode', list(size), 3, None, tier, ('clustered', part, 14)))
        for part in range(4):
            cor.append(('MatchingDecoder', 'Toric2DCode', list(size), 3, None, tier, ('clustered', part, 4)))
    # sweep-match: single-qubit errors on home lattices with d >= 3
    toric3 = [s_ for s_ in codes.sizes('Toric3DCode', 3 if tier == 'quick' else 4) if min(s_) >= 3]
    if tier == 'quick':
        toric3 += [(4, 3, 3), (3, 4, 3), (3, 3, 4)]      # every orientation of the long side
    else:
        toric3 += [(5, 4, 3), (3, 5, 4)]
    for size in dict.fromkeys(toric3):
        cor.append(('SweepMatchDecoder', 'Toric3DCode', list(size), 1, None, tier, True))
    for size in codes.sizes('RotatedPlanar3DCode', 3 if tier == 'quick' else 5):
        if codes.qubit_count('RotatedPlanar3DCode', size) <= 150 and \
                codes.build('RotatedPlanar3DCode', size).d >= 3 and (tier != 'quick' or size[2] <= 3):
            cor.append(('RotatedSweepMatchDecoder', 'RotatedPlanar3DCode', list(size), 1, None, tier, True))
            # one round of sweeps is all a single-qubit error needs
            if size[2] >= 2:
                cor.append(('RotatedSweepMatchDecoder', 'RotatedPlanar3DCode', list(size), 1, None, tier,
                            {'max_rounds': 1 + (sum(size) % 2)}))
    return opt, cor


def run(tier):
    t0 = time.time()
    v = common.Verdict('C09')
    opt, cor = domain(tier)
    recs = common.pmap(optimal, opt, procs=15) + common.pmap(correctable, cor, procs=15)
    recs = common.split_raised('C09', v, recs)
    for j, r in enumerate(recs):
        r['id'] = j
    rejects, st = common.eval_records('C09_Data', recs, 'c09', shards=16, heap='6g', timeout=5000)
    for r in recs:
        if r['id'] in rejects:
            cl = sorted(rejects[r['id']])
            v.reject('C09:' + r['kind'] + ':' + r['_label'].split('/')[0].split(' t=')[0]
                     + '[' + D.shape_tag(r['_size']) + ']:' + ','.join(cl),
                     {'case': r['_label'], 'failed': cl})
    rc = v.finish()
    n_dec = sum(len(r['decodes']) for r in recs)
    n_err = sum(len(r['obs']) for r in recs)
    common.write_evidence(
        'C09', tier, 'model_checking',
        {
            'states': st['distinct'], 'transitions': st['generated'],
            'traces_validated_against_impl': len(recs),
            'samples': [{'case': r['_label'], 'decodes': len(r['decodes']), 'errors': len(r['obs'])}
                        for r in recs[::max(1, len(recs) // 8)][:8]],
            'evaluations': n_dec + n_err,
            'distinct_nontrivial': n_dec + n_err - len(recs),
            'rule': 'optimal: (lattice, noise direction/deformation, rate) x '
                    'every valid syndrome (or weight<=2 + random when more '
                    'than the cap); correctable: every Pauli error of weight '
                    '<= t = floor((d-1)/2) <= 2 (sampled above the cap in the '
                    'quick tier; the record then says so and domain coverage '
                    'is not claimed); sweep-match: every single-qubit error; '
                    'non-trivial = non-zero syndrome / error',
            'optimality_records': len(opt), 'decodes_compared_with_coset_minimum': n_dec,
            'correctable_records': len(cor), 'low_weight_errors_decoded': n_err,
            'exhaustive': False,
        },
        time.time() - t0, len(v.violations),
        assumptions=[f'float weights are scaled by {SCALE} and rounded; a '
                     'correction is accepted when its integer cost is within '
                     'n + 1 units (1e-4 each) of the coset minimum, which '
                     'covers rounding and PyMatching\'s weight discretisation',
                     'C01 (valid code): residual is a stabilizer iff zero '
                     'syndrome and zero logical effect'])
    print(f'C09 {tier}: {len(opt)} optimality records / {n_dec} decodes, {len(cor)} correctable-set '
          f'records / {n_err} errors, {len(rejects)} rejected, {time.time()-t0:.1f}s')
    return rc


def main():
    tier = sys.argv[1] if len(sys.argv) > 1 else 'quick'
    common.main_wrapper(lambda: run(tier))


if __name__ == '__main__':
    main()
