"""Shared machinery: TLC runner, record batching, evidence, known findings.

Every property verdict is computed by TLC from a TLA+ module under /verif/spec.
Python only (a) drives the implementation and projects what it observes to the
abstract state of the specification, (b) hands those observations to TLC, and
(c) turns TLC's list of rejected observations into the exit code.
"""
import concurrent.futures
import json
import os
import re
import shutil
import subprocess
import sys
import time
import hashlib

VERIF = os.path.dirname(os.path.dirname(os.path.abspath(__file__)))
SPEC = os.path.join(VERIF, 'spec')
SCRATCH = os.path.join(VERIF, '.scratch')
REPLAY = os.path.join(VERIF, 'replay')
EVIDENCE = os.environ.get('VERIF_EVIDENCE_DIR') or os.path.join(VERIF, 'evidence')
TLA_CP = ('/opt/veriftools/tla/tla2tools.jar:'
          '/opt/veriftools/tla/CommunityModules-deps.jar')
PY = '/venv/bin/python'
REPO = '/repo'


class MachineryError(Exception):
    """Something in the verification machinery (not the system under test)
    failed.  Leads to exit code 2, never to a VIOLATION line."""


def seed():
    return int(os.environ.get('VERIF_SEED', '0') or 0)


_SCRATCH_N = __import__('itertools').count()


def scratch_dir(name):
    d = os.path.join(SCRATCH, f'{name}-{os.getpid()}-{next(_SCRATCH_N)}')
    shutil.rmtree(d, ignore_errors=True)
    os.makedirs(d, exist_ok=True)
    return d


def cleanup(d):
    shutil.rmtree(d, ignore_errors=True)


# --------------------------------------------------------------------------
# TLC
# --------------------------------------------------------------------------

_STATS = re.compile(
    r'(\d+) states generated, (\d+) distinct states found, '
    r'(\d+) states left on queue')


def run_tlc(module, cfg=None, env=None, workers=1, timeout=3600,
            extra=(), workdir=None, simulate=None, heap='4g',
            deadlock=False, coverage=False):
    """Run TLC on spec/<module>.tla with spec/<cfg>.  Returns a dict with
    stdout, states generated, distinct states and whether TLC reported an
    error (invariant / property / postcondition violated)."""
    own = workdir is None
    if own:
        workdir = scratch_dir('tlc-' + module)
    meta = os.path.join(workdir, 'meta')
    os.makedirs(meta, exist_ok=True)
    cfg = cfg or (module + '.cfg')
    cmd = ['java', '-XX:+UseParallelGC', '-Xss512m', f'-Xmx{heap}',
           '-cp', TLA_CP, 'tlc2.TLC',
           '-workers', str(workers), '-metadir', meta, '-noGenerateSpecTE',
           '-config', os.path.join(SPEC, cfg)]
    if not deadlock:
        cmd.append('-deadlock')   # -deadlock DISABLES deadlock checking
    if coverage:
        cmd += ['-coverage', '1']
    if simulate:
        cmd += ['-simulate', simulate]
    cmd += list(extra)
    cmd.append(os.path.join(SPEC, module + '.tla'))
    e = dict(os.environ)
    e.pop('JAVA_TOOL_OPTIONS', None)
    if env:
        e.update({k: str(v) for k, v in env.items()})
    t0 = time.time()
    try:
        p = subprocess.run(cmd, cwd=workdir, env=e, stdout=subprocess.PIPE,
                           stderr=subprocess.STDOUT, timeout=timeout,
                           text=True)
    except subprocess.TimeoutExpired as ex:
        subprocess.run(['pkill', '-f', meta], check=False)
        raise MachineryError(f'TLC timed out on {module} after {timeout}s') \
            from ex
    out = p.stdout
    res = {'stdout': out, 'rc': p.returncode, 'wall_s': time.time() - t0,
           'generated': 0, 'distinct': 0, 'workdir': workdir}
    for m in _STATS.finditer(out):
        res['generated'] = int(m.group(1))
        res['distinct'] = int(m.group(2))
    # TLC exit codes: 0 ok, 10 assumption, 11 deadlock, 12 safety, 13 liveness
    res['violation'] = p.returncode in (12, 13)
    res['finished'] = p.returncode in (0, 12, 13)
    res['broken'] = p.returncode not in (0, 12, 13)
    if own:
        cleanup(workdir)
    return res


def require_ok(res, what):
    """Machinery guard: TLC must have run to completion without tool errors."""
    if res['broken'] or (res['rc'] != 0 and not res['violation']):
        out = res['stdout']
        k = out.find('Error:')
        tail = out[k:k + 2500] if k >= 0 else out[-3000:]
        raise MachineryError(f'TLC failed on {what} (rc={res["rc"]}):\n{tail}')


_PRINT = re.compile(r'^<<"(REJECT|CHECKED|NOTE|COVER)", (.*)>>$')


def parse_tlc_value(s):
    """Parse the subset of TLC value syntax that our PrintT lines use:
    integers, strings, tuples <<..>>, sets {..}, records [a |-> v, ..]."""
    pos = 0

    def ws():
        nonlocal pos
        while pos < len(s) and s[pos] in ' \n\t':
            pos += 1

    def val():
        nonlocal pos
        ws()
        if s.startswith('<<', pos):
            pos += 2
            items = seq('>>')
            return items
        if s[pos] == '{':
            pos += 1
            return seq('}')
        if s[pos] == '[':
            pos += 1
            d = {}
            ws()
            while s[pos] != ']':
                ws()
                m = re.compile(r'[A-Za-z_0-9]+').match(s, pos)
                key = m.group(0)
                pos = m.end()
                ws()
                assert s.startswith('|->', pos), s[pos:pos + 20]
                pos += 3
                d[key] = val()
                ws()
                if s[pos] == ',':
                    pos += 1
            pos += 1
            return d
        if s[pos] == '"':
            end = pos + 1
            while s[end] != '"':
                if s[end] == '\\':
                    end += 1
                end += 1
            v = s[pos + 1:end]
            pos = end + 1
            return v
        m = re.compile(r'-?\d+').match(s, pos)
        if m:
            pos = m.end()
            return int(m.group(0))
        m = re.compile(r'TRUE|FALSE').match(s, pos)
        if m:
            pos = m.end()
            return m.group(0) == 'TRUE'
        raise ValueError(f'cannot parse TLC value at {s[pos:pos+40]!r}')

    def seq(close):
        nonlocal pos
        items = []
        ws()
        while not s.startswith(close, pos):
            items.append(val())
            ws()
            if s[pos] == ',':
                pos += 1
            ws()
        pos += len(close)
        return items

    return val()


def printed(out):
    """All <<"TAG", ...>> lines PrintT'ed by a spec, parsed."""
    res = []
    # PrintT output of long values may be wrapped over several lines.
    buf = None
    for line in out.splitlines():
        if buf is None:
            if re.match(r'^<< ?"', line):
                buf = line
            else:
                continue
        else:
            buf += ' ' + line.strip()
        if buf.count('<<') == buf.count('>>') and \
                buf.count('{') == buf.count('}') and \
                buf.count('[') == buf.count(']'):
            try:
                v = parse_tlc_value(buf)
                if v and isinstance(v[0], str):
                    res.append(v)
            except Exception:
                pass
            buf = None
    return res


def sanitize(o):
    """JSON values TLC's Json module cannot represent: null and non-integer
    numbers become strings (exact repr), numpy scalars become Python ones."""
    if o is None:
        return 'null'
    if isinstance(o, bool):
        return o
    if isinstance(o, int):
        return o
    if isinstance(o, float):
        return repr(o)
    if isinstance(o, str):
        return o
    if isinstance(o, dict):
        return {str(k): sanitize(v) for k, v in o.items()}
    if isinstance(o, (list, tuple)):
        return [sanitize(v) for v in o]
    if hasattr(o, 'item'):
        return sanitize(o.item())
    if hasattr(o, 'tolist'):
        return sanitize(o.tolist())
    return str(o)


def eval_records(module, records, name, shards=12, timeout=3600, cfg=None,
                 env=None, heap='3g', per_shard_min=1):
    """Hand `records` (list of JSON-able dicts, each with an integer 'id') to
    spec/<module>.tla, which evaluates its `Failed(rec)` operator on each of
    them.  Returns (rejects: {id: [clause,...]}, stats).  Raises
    MachineryError unless TLC reports having checked every record."""
    if not records:
        return {}, {'generated': 0, 'distinct': 0, 'wall_s': 0.0, 'notes': []}
    work = scratch_dir('eval-' + name)
    nsh = max(1, min(shards, len(records) // per_shard_min or 1))
    # round-robin by estimated cost keeps shards balanced
    order = sorted(records, key=lambda r: -r.get('_cost', 1))
    parts = [order[i::nsh] for i in range(nsh)]
    parts = [p for p in parts if p]

    def one(idx):
        d = os.path.join(work, f's{idx}')
        os.makedirs(d, exist_ok=True)
        f = os.path.join(d, 'data.json')
        with open(f, 'w') as fh:
            json.dump([sanitize({k: v for k, v in r.items()
                                 if not k.startswith('_')})
                       for r in parts[idx]], fh)
        e = {'VERIF_DATA': f}
        if env:
            e.update(env)
        r = run_tlc(module, cfg=cfg, env=e, workers=1, timeout=timeout,
                    workdir=d, heap=heap)
        return idx, r

    rejects = {}
    notes = []
    gen = dis = 0
    t0 = time.time()
    with concurrent.futures.ThreadPoolExecutor(max_workers=16) as ex:
        for idx, r in ex.map(one, range(len(parts))):
            require_ok(r, f'{module} shard {idx}')
            pr = printed(r['stdout'])
            checked = [v for v in pr if v[0] == 'CHECKED']
            if not checked or checked[-1][1] != len(parts[idx]):
                raise MachineryError(
                    f'{module} shard {idx}: TLC checked '
                    f'{checked[-1][1] if checked else None} of '
                    f'{len(parts[idx])} records\n' + r['stdout'][-2000:])
            for v in pr:
                if v[0] == 'REJECT':
                    rejects.setdefault(v[1], [])
                    rejects[v[1]] += [c for c in v[2]
                                      if c not in rejects[v[1]]]
                elif v[0] == 'NOTE':
                    notes.append(v[1:])
            gen += r['generated']
            dis += r['distinct']
    cleanup(work)
    return rejects, {'generated': gen, 'distinct': dis,
                     'wall_s': time.time() - t0, 'notes': notes}


# --------------------------------------------------------------------------
# known findings, verdicts, evidence
# --------------------------------------------------------------------------

def load_known():
    with open(os.path.join(VERIF, 'known_findings.json')) as f:
        return json.load(f)


def known_keys(prop):
    """Open findings of a property: list of (key, compiled pattern, what).
    An entry identifies the failing call site / input class either by an
    exact `key` or by a `key_regex` (full match).  Fixed entries suppress
    nothing."""
    import re as _re
    kf = load_known()
    out = []
    for e in kf.get('findings', []):
        if e['property'] != prop:
            continue
        if 'key_regex' in e:
            out.append((e['key_regex'], _re.compile(e['key_regex']), e['what']))
        else:
            out.append((e['key'], _re.compile(_re.escape(e['key'])), e['what']))
    return out


def write_replay(prop, payload):
    os.makedirs(REPLAY, exist_ok=True)
    h = hashlib.sha1(json.dumps(payload, sort_keys=True, default=str)
                     .encode()).hexdigest()[:10]
    path = os.path.join(REPLAY, f'{prop}-{h}.json')
    with open(path, 'w') as f:
        json.dump(payload, f, indent=1, default=str)
    return path


class Verdict:
    """Collects rejected observations for one property run and turns them
    into output lines and an exit code."""

    live = []                   # verdicts of this process (see binding_selftest)

    def __init__(self, prop):
        self.prop = prop
        self.known = known_keys(prop)
        Verdict.live.append(self)
        self.violations = []     # (key, payload)
        self.known_hits = {}     # key -> count
        self.known_what = {}

    def reject(self, key, payload):
        """An observation the specification rejects; `key` identifies the
        specific input / call site / history."""
        for name, pat, what in self.known:
            if pat.fullmatch(key):
                self.known_hits[name] = self.known_hits.get(name, 0) + 1
                self.known_what[name] = what
                return
        self.violations.append((key, payload))

    def finish(self):
        for key, cnt in sorted(self.known_hits.items()):
            print(f'KNOWN-FINDING: property={self.prop} {key} '
                  f'({cnt} rejected observations): {self.known_what[key]}')
        seen = set()
        for key, payload in self.violations:
            if key in seen:
                continue
            seen.add(key)
            if len(seen) > 25:
                print(f'... {len(self.violations)} rejected observations in '
                      f'total')
                break
            path = write_replay(self.prop, {'property': self.prop,
                                            'key': key, 'case': payload})
            print(f'VIOLATION property={self.prop} replay={path}')
            print(f'  key={key}')
        return 1 if self.violations else 0


def write_evidence(prop, tier, level, coverage, wall_s, violations,
                   assumptions=()):
    os.makedirs(EVIDENCE, exist_ok=True)
    ev = {
        'property_id': prop,
        'tier': tier,
        'seed': seed(),
        'level': level,
        'coverage': coverage,
        'assumptions': list(assumptions),
        'wall_s': round(float(wall_s), 3),
        'violations': int(violations),
    }
    tmp = os.path.join(EVIDENCE, f'.{prop}.json.tmp')
    with open(tmp, 'w') as f:
        json.dump(ev, f, indent=1, default=str)
    os.replace(tmp, os.path.join(EVIDENCE, f'{prop}.json'))


def trim(obj, limit=400):
    s = json.dumps(obj, default=str)
    return obj if len(s) <= limit else s[:limit] + '...'


def main_wrapper(fn):
    """Exit 2 on machinery failure with a traceback; checks return 0/1."""
    try:
        rc = fn()
    except MachineryError as ex:
        print(f'MACHINERY-ERROR: {ex}', file=sys.stderr)
        sys.exit(2)
    except Exception as ex:
        import traceback
        traceback.print_exc()
        # an exception that comes out of the library under test during a call
        # the harness makes on every run is an observation about the library
        # (none of the modelled calls may raise), not a failure of the machinery
        import re
        text = ''.join(traceback.format_exception(ex))      # includes a worker's remote traceback
        where = [m for m in re.finditer(r'File "([^"]*/panqec/[^"]*)", line (\d+)', text)
                 if '/site-packages/' not in m.group(1) and '/verif/' not in m.group(1)]
        live = [v for v in Verdict.live]
        if where and live:
            loc = f'panqec/{where[-1].group(1).split("/panqec/")[-1]}:{where[-1].group(2)}'
            v = live[-1]
            v.reject(f'{v.prop}:library_call_raised:{type(ex).__name__}@{loc}',
                     {'exception': f'{type(ex).__name__}: {str(ex)[:300]}', 'where': loc,
                      'traceback': traceback.format_exc()[-2000:]})
            print('NOTE: the run was cut short by an exception raised inside the library',
                  file=sys.stderr)
            rc = v.finish()
            try:
                write_evidence(v.prop, sys.argv[1] if len(sys.argv) > 1 else 'quick', 'other',
                               {'states': 0, 'transitions': 0, 'traces_validated_against_impl': 0,
                                'cut_short_by_exception_in_library': loc}, 0.0, len(v.violations))
            except Exception:      # noqa
                pass
            sys.exit(rc)
        print('MACHINERY-ERROR: unexpected exception in harness',
              file=sys.stderr)
        sys.exit(2)
    sys.exit(rc)


class time_limit:
    """Context manager: raise TimeoutError in the block after `seconds`
    (SIGALRM; main thread of a worker process only)."""

    def __init__(self, seconds):
        self.seconds = seconds

    def __enter__(self):
        import signal

        def _alarm(signum, frame):
            raise TimeoutError(f'call did not return within {self.seconds}s')
        self._old = signal.signal(signal.SIGALRM, _alarm)
        signal.alarm(self.seconds)

    def __exit__(self, *a):
        import signal
        signal.alarm(0)
        signal.signal(signal.SIGALRM, self._old)
        return False


def pmap(fn, items, procs=14):
    """Parallel map over processes (export side is pure Python/numpy)."""
    import multiprocessing as mp
    items = list(items)
    if len(items) <= 1 or procs <= 1:
        return [fn(x) for x in items]
    ctx = mp.get_context('fork')
    with ctx.Pool(min(procs, len(items))) as pool:
        return pool.map(fn, items, chunksize=1)


class Raised(dict):
    """Marker record: the system under test raised inside a modelled call."""


def safe(fn):
    """Wrap an export function item -> record so that an exception raised by
    the system under test becomes an observation (rejected by the caller as a
    violation: none of the modelled calls is allowed to raise) instead of a
    machinery failure."""
    import functools
    import traceback

    @functools.wraps(fn)
    def wrapper(item):
        try:
            return fn(item)
        except MachineryError:
            raise
        except BaseException as ex:    # noqa
            tb = traceback.extract_tb(ex.__traceback__)
            where = [f for f in tb if '/panqec/' in f.filename and '/site-packages/' not in f.filename]
            loc = f'{where[-1].filename}:{where[-1].lineno}' if where else 'harness'
            if not where:
                raise
            return Raised(_raised=f'{type(ex).__name__}: {str(ex)[:200]} at {loc}',
                          _item=repr(item)[:300])
    return wrapper


def split_raised(prop, verdict, recs, label=lambda r: r.get('_item', '?')):
    """Reject Raised markers; return the ordinary records."""
    good = []
    for r in recs:
        if isinstance(r, Raised) or (isinstance(r, dict) and '_raised' in r):
            exc = r['_raised'].split(':')[0]
            verdict.reject(f"{prop}:raised:{exc}:{label(r)}"[:300],
                           {'item': r.get('_item'), 'raised': r['_raised']})
        else:
            good.append(r)
    return good


def binding_selftest(name, module, recs, mutate, pick=3, cfg=None, evaluator=None):
    """Vacuity / binding guard: corrupt one recorded field of a few accepted
    records and require TLC to reject every one of them.  A check whose spec
    accepts the corrupted observations is not bound to the implementation:
    that is a machinery failure (exit 2), never a verdict."""
    import copy
    chosen = []
    for r in recs:
        m = mutate(copy.deepcopy(r))
        if m is not None:
            m['id'] = len(chosen)
            chosen.append(m)
        if len(chosen) >= pick:
            break
    if not chosen:
        # nothing accepted to corrupt (e.g. every record is already rejected):
        # the self-test is skipped, it must never mask a verdict
        return 0
    if evaluator is not None:
        rej, _ = evaluator(chosen)
    else:
        rej, _ = eval_records(module, chosen, name + '-selftest', shards=1, cfg=cfg)
    missed = [m['id'] for m in chosen if m['id'] not in rej]
    if missed and any(v.violations for v in Verdict.live):
        # the implementation under test already violates the property: the run
        # ends with its VIOLATION lines; a self-test disturbed by the same
        # defect must not turn the verdict into a machinery failure
        print(f'NOTE: {name}: binding self-test inconclusive on a violating tree '
              f'({len(missed)} corrupted record(s) accepted)')
        return len(chosen) - len(missed)
    if missed:
        raise MachineryError(f'{name}: binding self-test failed - {len(missed)} corrupted '
                             f'record(s) were accepted by {module}')
    return len(chosen)
