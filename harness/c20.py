"""C20 - the visualizer backend serves every offered choice with faithful data.

model: Gui.tla - the client menu of main.js as a state machine over the
library's tables (GUI code names, deformation names, decoders' allowed codes,
supported menu sizes); TLC explores every reachable menu state, checks that
the menu never holds a choice the backend does not offer, and emits the
requests the menu can send (code-data for every code x deformation x picture
x size; decode / new-errors for every decoder x noise deformation x error
model at each code's smallest size; names).
spec -> code: every emitted request is posted to the Flask test client and
the response is judged by TLC (C20_Data.tla) against objects built directly
from the library.
"""
import json
import os
import sys
import time

import numpy as np

from . import codes, common
import panqec.gui._gui as G
from panqec.error_models import PauliErrorModel

XZ = {(0, 0): 'I', (1, 0): 'X', (1, 1): 'Y', (0, 1): 'Z'}


def tables(tier):
    max_l2, max_l3, cap = (4, 3, 2_000_000) if tier == 'quick' else (12, 6, 20_000_000)
    cs = []
    for name, cls in G.codes.items():
        cid = cls.__name__
        dim = cls.dimension
        sizes = []
        for L in range(1, (max_l2 if dim == 2 else max_l3) + 1):
            for cop in (False, True):
                size = ((L + 1 if cop else L), L) + ((L,) if dim == 3 else ())
                if not codes.in_family(cid, size):
                    continue
                n = codes.qubit_count(cid, size)
                m = len(cls(*size).get_stabilizer_coordinates())
                if 2 * n * m > cap:
                    continue
                sizes.append([L, cop])
        cs.append({'name': name, 'id': cid, 'dim': int(dim),
                   'deformations': list(cls.deformation_names), 'sizes': sizes})
    ds = [{'name': n, 'allowed': (['*'] if c.allowed_codes is None else list(c.allowed_codes))}
          for n, c in G.decoders.items()]
    return {'id': 0, 'codes': cs, 'decoders': ds}


def requests(tier):
    work = common.scratch_dir('c20m')
    f = os.path.join(work, 'tables.json')
    t = tables(tier)
    with open(f, 'w') as fh:
        json.dump([t], fh)
    r = common.run_tlc('Gui', env={'VERIF_DATA': f}, workers=16, workdir=work,
                       timeout=3000, heap='8g')
    common.require_ok(r, 'Gui')
    if r['violation']:
        raise common.MachineryError('Gui.tla: menu invariant violated:\n' + r['stdout'][-1500:])
    reqs = {'CODEDATA': set(), 'DECODE': set(), 'NAMES': set()}
    for line in r['stdout'].splitlines():
        if line.startswith('<<"CODEDATA"') or line.startswith('<<"DECODE"') or line.startswith('<<"NAMES"'):
            try:
                v = common.parse_tlc_value(line)
            except Exception:
                continue
            reqs[v[0]].add(json.dumps(v[1:]))
    common.cleanup(work)
    return {k: [json.loads(x) for x in sorted(v)] for k, v in reqs.items()}, r, t


def lib_code(name, cdef, size):
    cls = G.codes[name]
    code = cls(*size[:cls.dimension])
    if cdef != 'None':
        code.deform(cdef)
    return code


def ops(mat, n):
    return codes.rows_to_ops(np.asarray(mat) % 2, n)


def complete(d, keys):
    return all(k in d and d[k] is not None for k in keys)


def do_codedata(client, req):
    name, cdef, rotated, lx, ly, lz = req
    body = {'Lx': lx, 'Ly': ly, 'Lz': lz, 'code_name': name,
            'code_deformation_name': cdef, 'rotated_picture': bool(rotated)}
    rec = {'kind': 'codedata', 'status': 0, '_req': req}
    try:
        resp = client.post('/code-data', json=body)
        rec['status'] = resp.status_code
        data = json.loads(resp.data) if resp.status_code == 200 else None
    except Exception as ex:           # Flask test client propagates exceptions
        rec['status'] = 500
        rec['_exc'] = f'{type(ex).__name__}: {ex}'[:120]
        data = None
    code = lib_code(name, cdef, (lx, ly, lz))
    n, m = code.n, code.stabilizer_matrix.shape[0]
    def canon(d):
        return json.dumps(json.loads(G.json.dumps(d)), sort_keys=True)

    def lib_repr(fn, locs):
        out = []
        for loc in locs:
            try:
                out.append(canon(fn(loc, bool(rotated))))
            except Exception as ex:
                out.append('raised:' + type(ex).__name__)
        return out
    rec.update({'n': int(n), 'm': int(m),
                'lib_qubits': lib_repr(code.qubit_representation, code.qubit_coordinates),
                'lib_stabilizers': lib_repr(code.stabilizer_representation, code.stabilizer_coordinates),
                'lib_H': codes.rows_to_ops(code.stabilizer_matrix, n),
                'lib_lx': ops(code.logicals_x, n), 'lib_lz': ops(code.logicals_z, n)})
    if data is not None:
        rec.update({
            'qubits': [json.dumps(q, sort_keys=True) for q in data['qubits']],
            'stabilizers': [json.dumps(s_, sort_keys=True) for s_ in data['stabilizers']],
            'qubit_complete': [complete(q, ('object', 'color', 'opacity', 'params', 'location'))
                               and complete(q['color'], ('I', 'X', 'Y', 'Z')) for q in data['qubits']],
            'stab_complete': [complete(s_, ('object', 'color', 'opacity', 'params', 'location', 'type'))
                              and complete(s_['color'], ('activated', 'deactivated')) for s_ in data['stabilizers']],
            'H': ops(data['H'], n) if len(data['H']) else [],
            'lx': ops(data['logical_x'], n), 'lz': ops(data['logical_z'], n)})
    else:
        rec.update({'qubits': [], 'stabilizers': [], 'qubit_complete': [],
                    'stab_complete': [], 'H': [], 'lx': [], 'lz': []})
    rec['_cost'] = n * m + 10
    return rec


def do_names(client, req, t):
    name, exp_dec, exp_def = req
    r1 = client.post('/decoder-names', json={'code_name': name})
    r2 = client.post('/deformation-names', json={'code_name': name})
    return {'kind': 'names', 'status': r1.status_code, 'dstatus': r2.status_code,
            'decoders': json.loads(r1.data) if r1.status_code == 200 else [],
            'deformations': json.loads(r2.data) if r2.status_code == 200 else [],
            'expected_decoders': exp_dec, 'expected_deformations': exp_def, '_req': req, '_cost': 1}


def do_decode(client, req, seed):
    name, cdef, ndef, dec, em_name, lx, ly, lz = req
    rng = np.random.default_rng(seed)
    code = lib_code(name, cdef, (lx, ly, lz))
    n = code.n
    nd = None if ndef == 'None' else ndef
    rx, ry, rz = G.noise_directions[em_name]
    em = PauliErrorModel(rx, ry, rz, nd)
    p = 0.1
    err = em.generate(code, 0.15, rng=rng)
    syn = np.asarray(code.measure_syndrome(err)).ravel()
    body = {'Lx': lx, 'Ly': ly, 'Lz': lz, 'code_name': name, 'code_deformation_name': cdef,
            'syndrome': [int(x) for x in syn], 'p': p, 'noise_deformation_name': ndef,
            'max_bp_iter': 10, 'alpha': 0.4, 'beta': 0, 'channel_update': False,
            'decoder': dec, 'error_model': em_name}
    rec = {'kind': 'decode', 'n': int(n), '_req': req, 'x': [], 'z': [], 'lib_x': [], 'lib_z': [],
           'lib_raised': '', 'letters': [], 'allowed_letters': [], 'elen': 0, 'ebinary': False}
    try:
        import contextlib, io
        with contextlib.redirect_stdout(io.StringIO()):
            resp = client.post('/decode', json=body)
        rec['status'] = resp.status_code
        if resp.status_code == 200:
            d = json.loads(resp.data)
            rec['x'], rec['z'] = [int(v) % 2 for v in d['x']], [int(v) % 2 for v in d['z']]
    except Exception as ex:
        rec['status'] = 500
        rec['_exc'] = f'{type(ex).__name__}: {ex}'[:120]
    # the library on the same inputs
    try:
        kwargs = {}
        if dec in ('BP-OSD', 'MBP'):
            kwargs['max_bp_iter'] = 10
        if dec == 'BP-OSD':
            kwargs['osd_order'] = 0
        if dec == 'MBP':
            kwargs['alpha'], kwargs['beta'] = 0.4, 0
        import contextlib, io
        with contextlib.redirect_stdout(io.StringIO()):
            dobj = G.decoders[dec](lib_code(name, cdef, (lx, ly, lz)), PauliErrorModel(rx, ry, rz, nd), p, **kwargs)
            c = np.asarray(dobj.decode(np.array([int(x) for x in syn]))).ravel() % 2
        rec['lib_x'], rec['lib_z'] = [int(v) for v in c[:n]], [int(v) for v in c[n:]]
    except Exception as ex:
        rec['lib_raised'] = f'{type(ex).__name__}: {ex}'[:120]
    # new errors
    try:
        resp = client.post('/new-errors', json={k: body[k] for k in
                                                ('Lx', 'Ly', 'Lz', 'code_name', 'code_deformation_name',
                                                 'p', 'noise_deformation_name', 'error_model')})
        rec['estatus'] = resp.status_code
        if resp.status_code == 200:
            e = np.asarray(json.loads(resp.data)).ravel()
            rec['elen'] = int(e.shape[0])
            rec['ebinary'] = bool(np.all((e == 0) | (e == 1)))
            if e.shape[0] == 2 * n:
                rec['letters'] = [XZ[(int(e[q]), int(e[n + q]))] for q in range(n)]
    except Exception as ex:
        rec['estatus'] = 500
        rec['_exc2'] = f'{type(ex).__name__}: {ex}'[:120]
    pi, px, py, pz = em.probability_distribution(code, p)
    rec['allowed_letters'] = [[s for s, a in zip('IXYZ', (pi, px, py, pz)) if a[q] > 0] for q in range(n)]
    rec['_cost'] = n
    return rec


def run(tier):
    t0 = time.time()
    v = common.Verdict('C20')
    reqs, model, t = requests(tier)
    gui = G.GUI()
    gui.app.testing = False
    gui.app.logger.disabled = True
    import logging
    logging.getLogger('werkzeug').disabled = True
    client = gui.app.test_client()
    recs = []
    for rq in reqs['CODEDATA']:
        recs.append(do_codedata(client, rq))
    for rq in reqs['NAMES']:
        recs.append(do_names(client, rq, t))
    dec_reqs = reqs['DECODE']
    if tier == 'quick':
        dec_reqs = dec_reqs[::3]
    for k, rq in enumerate(dec_reqs):
        recs.append(do_decode(client, rq, common.seed() + k))
    for j, r in enumerate(recs):
        r['id'] = j
    rejects, st = common.eval_records('C20_Data', recs, 'c20', shards=16)
    for r in recs:
        if r['id'] in rejects:
            cl = sorted(rejects[r['id']])
            rq = r['_req']
            if r['kind'] == 'codedata':
                key = f"C20:codedata:{rq[0]}:{'rotated' if rq[2] else 'kitaev'}:" + ','.join(cl)
            elif r['kind'] == 'names':
                key = f"C20:names:{rq[0]}:" + ','.join(cl)
            else:
                key = f"C20:decode:{rq[0]}:{rq[3]}:" + ','.join(cl)
            v.reject(key, {'request': rq, 'failed': cl, 'status': r.get('status'),
                           'exception': r.get('_exc')})
    rc = v.finish()
    common.write_evidence(
        'C20', tier, 'model_checking',
        {
            'states': model['distinct'] + st['distinct'],
            'transitions': model['generated'] + st['generated'],
            'traces_validated_against_impl': len(recs),
            'samples': [reqs['CODEDATA'][0], reqs['CODEDATA'][-1], reqs['DECODE'][0], reqs['NAMES'][0]],
            'evaluations': len(recs),
            'distinct_nontrivial': len(reqs['CODEDATA']) + len(dec_reqs),
            'rule': 'requests emitted by TLC from the reachable states of the '
                    'menu state machine: code-data for every (code, offered '
                    'deformation, picture, menu size in the supported family '
                    'and bound), names per code, decode + new-errors for every '
                    '(code, code deformation, noise deformation, offered '
                    'decoder, error model) at the smallest size (every third '
                    'in the quick tier)',
            'menu_states': model['distinct'], 'code_data_requests': len(reqs['CODEDATA']),
            'decode_requests': len(dec_reqs), 'names_requests': len(reqs['NAMES']),
            'exhaustive': tier != 'quick',
        },
        time.time() - t0, len(v.violations),
        assumptions=['main.js is transcribed by hand into Gui.tla (no JS engine '
                     'in the sandbox): the binding is between the menu model and '
                     'the Flask backend',
                     'the reference for the data is the library itself (C01-C08)'])
    print(f'C20 {tier}: {model["distinct"]} menu states, {len(reqs["CODEDATA"])} code-data, '
          f'{len(dec_reqs)} decode/new-errors, {len(reqs["NAMES"])} names requests, '
          f'{len(rejects)} rejected, {time.time()-t0:.1f}s')
    return rc


def main():
    tier = sys.argv[1] if len(sys.argv) > 1 else 'quick'
    common.main_wrapper(lambda: run(tier))


if __name__ == '__main__':
    main()
