"""C17 - the reported distance d is the true code distance.

code -> spec: each (class, size) export carries code.d; TLC runs the
DistanceSearch state machine on the exported stabilizers/logicals (the BFS is
the exhaustive search below d, with a complete pruning rule) and C17_Brute
(unpruned 4^n enumeration) on the tiny ones.  Self-test of the pruning lemma:
the same codes with d overstated by one must all be rejected."""
import json
import os
import sys
import time

from . import codes, common


def estimate(rec):
    w = max((len(set(s['x']) | set(s['z'])) for s in rec['stabs']), default=1)
    d = rec['d']
    if all(not s['x'] or not s['z'] for s in rec['stabs']):
        # CSS: the search uses one letter per run (DistanceSearch.tla)
        return 2 * rec['n'] * w ** max(d - 2, 0) if d >= 2 else 1
    return 3 * rec['n'] * (3 * w) ** max(d - 2, 0) if d >= 2 else 1


def thin_sizes(name, tier):
    """Long thin lattices: one side 6..10 (12 in the thorough tier), the others
    among the two smallest the family allows - every orientation."""
    import itertools
    dim = codes.dimension(name)
    lo = codes.SUPPORTED[name].get('min_side', 1)
    out = []
    for pos in range(dim):
        for long_side in range(6, 11 if tier == 'quick' else 13):
            for others in itertools.product((lo, lo + 1, lo + 2), repeat=dim - 1):
                it = iter(others)
                size = tuple(long_side if j == pos else next(it) for j in range(dim))
                if codes.in_family(name, size) and codes.qubit_count(name, size) <= 400:
                    out.append(size)
    return list(dict.fromkeys(out))


def domain(tier):
    if tier == 'quick':
        side2, side3, dmax, cap, max_n = 6, 4, 5, 300_000, 200
    else:
        side2, side3, dmax, cap, max_n = 7, 5, 6, 4_000_000, 420
    recs = []
    for name in codes.CLASSES:
        ms = side2 if codes.dimension(name) == 2 else side3
        if name in ('RhombicToricCode', 'Color3DCode', 'HollowRhombicCode'):
            ms = max(ms, 4)
        for size in list(codes.sizes(name, ms, max_n=max_n)) + thin_sizes(name, tier):
            thin = max(size) > ms
            variants = codes.deformation_variants(name) if not thin else [(None, {})]
            # deformation invariance of d is C08's business; here the
            # undeformed code plus (cheaply) the first deformation
            # the undeformed code and every deformation NAME (default axis);
            # per-axis invariance of d is C08's business
            byname = {}
            for dname_, kw_ in variants:
                byname.setdefault(dname_, (dname_, kw_))
            for dname, kw in byname.values():
                code = codes.build(name, size, dname, kw)
                r = codes.project(code)
                r['_label'] = codes.label(name, size, dname, kw)
                r['_est'] = estimate(r)
                # (for the one-letter search the estimate is about 100 times the states TLC visits)
                if r['k'] == 0 or r['d'] > (dmax if not thin else 10) or r['_est'] > (cap if not thin else 100 * cap):
                    continue
                recs.append(r)
    for j, r in enumerate(recs):
        r['id'] = j
    return recs


def search(recs, name, workers=16, timeout=3000):
    work = common.scratch_dir('c17-' + name)
    f = os.path.join(work, 'data.json')
    with open(f, 'w') as fh:
        json.dump([{k: v for k, v in r.items() if not k.startswith('_')}
                   for r in recs], fh)
    r = common.run_tlc('DistanceSearch', env={'VERIF_DATA': f},
                       workers=workers, workdir=work, timeout=timeout,
                       heap='16g')
    common.require_ok(r, 'DistanceSearch')
    pr = common.printed(r['stdout'])
    if not any(v[0] == 'CHECKED' and v[1] == len(recs) for v in pr):
        raise common.MachineryError('DistanceSearch did not finish:\n'
                                    + r['stdout'][-2000:])
    if r['violation']:
        raise common.MachineryError('DistanceSearch: reachable operator not '
                                    'lighter than d (spec bug):\n'
                                    + r['stdout'][-2000:])
    rej = {}
    for v in pr:
        if v[0] == 'REJECT':
            rej.setdefault(v[1], set()).update(v[2])
    common.cleanup(work)
    return rej, r


def run(tier):
    t0 = time.time()
    v = common.Verdict('C17')
    recs = domain(tier)
    rej, res = search(recs, 'judge')
    # tiny codes: unpruned enumeration as well
    tiny = [r for r in recs if r['n'] <= (7 if tier == 'quick' else 8)]
    brej, bst = common.eval_records('C17_Brute', tiny, 'c17b', shards=16)
    # d must be the weight of some genuine logical operator (upper bound on the
    # true distance); the search shows that nothing lighter exists (lower bound)
    # large codes (logical operators of weight >= 256, far beyond any search):
    # the witness direction only - the reported d is the weight of a genuine
    # logical operator among those the code lists
    big = []
    for name, size in ([('Toric3DCode', (2, 16, 16)), ('Planar3DCode', (2, 16, 16))] if tier == 'quick' else
                       [('Toric3DCode', (2, 16, 16)), ('Planar3DCode', (2, 16, 16)),
                        ('Toric3DCode', (3, 16, 17)), ('RotatedPlanar3DCode', (16, 16, 2)),
                        ('Toric2DCode', (16, 17))]):
        code = codes.build(name, size)
        r = codes.project(code)
        r['id'] = len(recs) + len(big)
        r['_label'] = codes.label(name, size, None, None) + ' (witness only)'
        r['_cost'] = r['n'] * 4
        big.append(r)
    # an interrupt (Ctrl-C, a timeout alarm) while d is being computed for the
    # first time must not leave a provisional value behind
    for name, size in (('RotatedPlanar2DCode', (3, 3)), ('Toric2DCode', (2, 3)), ('Planar3DCode', (2, 2, 2))):
        code = codes.build(name, size)
        real = code.get_logicals_x

        def interrupted(*a, **k):
            raise KeyboardInterrupt('injected while the logical operators are built')
        code.get_logicals_x = interrupted
        try:
            code.d
        except KeyboardInterrupt:
            pass
        finally:
            code.get_logicals_x = real
        r = codes.project(code)
        r['id'] = len(recs) + len(big)
        r['_label'] = codes.label(name, size, None, None) + ' (d read again after an interrupted first read)'
        r['_cost'] = r['n'] * 4
        big.append(r)
    wrej_all, wst = common.eval_records('C17_Witness', [r for r in recs if r['k'] > 0] + big, 'c17w',
                                        shards=16, heap='6g')
    for r in big:
        if r['id'] in wrej_all:
            v.reject(f"C17:{r['_label']}", {'label': r['_label'], 'd': r['d'], 'n': r['n'],
                                            'failed_clauses': sorted(wrej_all[r['id']])})
    for r in recs:
        cl = set(rej.get(r['id'], ())) | set(brej.get(r['id'], ())) | set(wrej_all.get(r['id'], ()))
        if cl:
            v.reject(f"C17:{r['_label']}", {'label': r['_label'], 'd': r['d'],
                                            'n': r['n'],
                                            'failed_clauses': sorted(cl)})
    # self-test of the pruning lemma: overstate d by one on codes where the
    # search stays small; every one of them must be rejected.
    st = [dict(r, d=r['d'] + 1) for r in recs
          if estimate(dict(r, d=r['d'] + 1)) <= (40_000 if tier == 'quick' else 400_000)]
    srej, sres = search(st, 'selftest')
    missed = [r['_label'] for r in st
              if 'lighter_logical_exists' not in srej.get(r['id'], ())]
    if missed:
        # no logical of weight <= d was found.  Either the search is at fault,
        # or the reported d is not the weight of any logical operator (the
        # code's own listed operator of that weight is not a logical): TLC
        # decides on the listed operators (C17_Witness.tla)
        mrecs = [r for r in recs if r['_label'] in set(missed)]
        at_fault = [r['_label'] for r in mrecs if r['id'] not in wrej_all]
        if at_fault:
            raise common.MachineryError(
                'pruned distance search failed to find an existing logical of '
                f'weight d on {at_fault[:5]} (pruning lemma / spec bug)')
    rc = v.finish()
    common.write_evidence(
        'C17', tier, 'model_checking',
        {
            'states': res['distinct'] + sres['distinct'] + bst['distinct'],
            'transitions': res['generated'] + sres['generated'] + bst['generated'],
            'traces_validated_against_impl': len(recs),
            'samples': [{'label': r['_label'], 'n': r['n'], 'd': r['d'],
                         'estimated_states': r['_est']}
                        for r in recs[::max(1, len(recs) // 12)]],
            'evaluations': len(recs) + len(tiny) + len(st),
            'distinct_nontrivial': len([r for r in recs if r['d'] >= 2]),
            'rule': 'one exported code per (class, supported size, undeformed '
                    'and first deformation) with d <= bound and estimated '
                    'search size <= cap; non-trivial = d >= 2 (a search '
                    'actually runs); every operator of weight < d reachable '
                    'under the complete pruning rule is visited by TLC',
            'search_states': res['distinct'],
            'brute_force_codes': len(tiny),
            'selftest_overstated_codes_all_rejected': len(st),
            'max_d': max(r['d'] for r in recs),
            'max_n': max(r['n'] for r in recs),
            'exhaustive': True,
        },
        time.time() - t0, len(v.violations),
        assumptions=['C01 (valid code) so that zero syndrome and zero '
                     'logical effect imply stabilizer',
                     'nothing is claimed for sizes beyond the listed bound'])
    print(f'C17 {tier}: {len(recs)} codes searched ({res["distinct"]} states), '
          f'{len(tiny)} brute-forced, {len(st)} overstated self-tests, '
          f'{len(v.violations)} violations, {time.time()-t0:.1f}s')
    return rc


def main():
    tier = sys.argv[1] if len(sys.argv) > 1 else 'quick'
    common.main_wrapper(lambda: run(tier))


if __name__ == '__main__':
    main()
