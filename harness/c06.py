"""C06 - decoding is a pure function of the syndrome.

spec -> code / code -> spec: call histories are generated from the domain
operator of the specification (all ordered pairs of valid syndromes of a tiny
code, as one Eulerian sequence over the complete digraph of syndromes; random
long histories on larger codes), replayed on ONE reused decoder object, each
distinct syndrome also on a FRESH object, with the caller's syndrome array and
the noise model's probability tables compared before/after every call.  TLC
validates the event log with the memo history variable of
DecoderContract.tla (same syndrome => same correction, whatever the history
and whichever object).
"""
import sys
import time

import numpy as np

from . import codes, common, decoders as D


def euler_sequence(k):
    """Sequence over 0..k-1 in which every ordered pair (a, b), a != b and
    a == b included, occurs consecutively (Eulerian circuit of the complete
    digraph with loops, Hierholzer)."""
    out_edges = {a: list(range(k)) for a in range(k)}
    stack, circuit = [0], []
    while stack:
        v = stack[-1]
        if out_edges[v]:
            stack.append(out_edges[v].pop())
        else:
            circuit.append(stack.pop())
    return circuit[::-1]


def tiny_configs(tier):
    cfgs = []
    bp = {'max_bp_iter': 10, 'osd_order': 0}

    def add(dec, code, size, noise='depol', p=0.1, **kw):
        cfgs.append(dict({'decoder': dec, 'code': code, 'size': list(size),
                          'noise': noise, 'p': p}, **kw))
    add('MatchingDecoder', 'Toric2DCode', (2, 2))
    add('MatchingDecoder', 'Planar2DCode', (2, 2), noise='Zbias')
    add('MatchingDecoder', 'RotatedPlanar2DCode', (2, 3))
    add('MatchingDecoder', 'RotatedPlanar2DCode', (3, 3), p=0.05)
    add('BeliefPropagationOSDDecoder', 'Toric2DCode', (2, 2), dec_kwargs=bp)
    add('BeliefPropagationOSDDecoder', 'Toric2DCode', (3, 3), p=0.02, dec_kwargs=bp)
    add('BeliefPropagationOSDDecoder', 'Planar2DCode', (2, 2), noise='Zbias', p=0.02, dec_kwargs=bp)
    add('BeliefPropagationOSDDecoder', 'RotatedPlanar2DCode', (2, 2), dec_kwargs=dict(bp, channel_update=True))
    # syndromes the channel itself can never produce (structural zeros in the
    # channel), every ordered pair, with another decoder object working in between
    add('BeliefPropagationOSDDecoder', 'RotatedPlanar2DCode', (2, 3), noise='X',
        dec_kwargs=dict(bp, channel_update=True), _intruder_p=0.45)
    add('BeliefPropagationOSDDecoder', 'Toric2DCode', (2, 2), noise='Z',
        dec_kwargs=dict(bp, channel_update=True), _intruder_p=0.45)
    add('BeliefPropagationOSDDecoder', 'Toric2DCode', (2, 3), noise='X', p=0.1,
        dec_kwargs=dict(bp, channel_update=True), _intruder_p=0.45)
    add('BeliefPropagationOSDDecoder', 'RotatedPlanar2DCode', (2, 3), code_def='XZZX', code_def_kw={}, dec_kwargs=bp)
    add('BeliefPropagationOSDDecoder', 'Planar2DCode', (2, 2), code_def='XY', code_def_kw={}, p=0.02, dec_kwargs=bp)
    add('BeliefPropagationOSDDecoder', 'Color666PlanarCode', (1, 1), p=0.05, dec_kwargs=bp)
    add('BeliefPropagationOSDDecoder', 'RotatedToric3DCode', (2, 3, 1), dec_kwargs=bp)
    add('MemoryBeliefPropagationDecoder', 'Planar2DCode', (2, 2), dec_kwargs={'max_bp_iter': 5})
    add('UnionFindDecoder', 'Toric2DCode', (3, 3), p=0.05)
    add('XCubeMatchingDecoder', 'XCubeCode', (2, 2, 2), p=0.02)
    # per-plane / per-sector buffers only differ in length on non-cubic lattices
    add('XCubeMatchingDecoder', 'XCubeCode', (2, 2, 3), p=0.05)
    add('XCubeMatchingDecoder', 'XCubeCode', (3, 2, 2), noise='X', p=0.05)
    if tier != 'quick':
        add('MatchingDecoder', 'Toric2DCode', (2, 3))
        add('MatchingDecoder', 'Planar2DCode', (2, 3), noise='Zbias', noise_def='XZZX', noise_def_kw={})
        add('BeliefPropagationOSDDecoder', 'Toric2DCode', (2, 3), noise='Z', p=0.05, dec_kwargs=dict(bp, channel_update=True))
        add('BeliefPropagationOSDDecoder', 'Planar3DCode', (2, 2, 1), dec_kwargs=bp)
        add('BeliefPropagationOSDDecoder', 'RotatedPlanar3DCode', (2, 2, 2), p=0.03, dec_kwargs=bp)
        add('BeliefPropagationOSDDecoder', 'Toric2DCode', (2, 2), code_def='XZZX', code_def_kw={'deformation_axis': 'x'}, dec_kwargs=bp)
        add('MemoryBeliefPropagationDecoder', 'RotatedPlanar2DCode', (2, 2), dec_kwargs={'max_bp_iter': 5})
        add('XCubeMatchingDecoder', 'XCubeCode', (2, 2, 3), p=0.02)
        add('UnionFindDecoder', 'Toric2DCode', (3, 4), p=0.05)
    return cfgs


def larger_configs(tier):
    cfgs = []
    bp = {'max_bp_iter': 15, 'osd_order': 0}
    for name in codes.CLASSES:
        ss = codes.sizes(name, 3 if codes.dimension(name) == 2 else 2, max_n=90, min_n=9) \
            or codes.sizes(name, 4, max_n=200, min_n=9)
        if not ss:
            continue
        size = ss[-1]
        for p in ([0.02] if tier == 'quick' else [0.01, 0.05]):
            cfgs.append({'decoder': 'BeliefPropagationOSDDecoder', 'code': name,
                         'size': list(size), 'noise': 'depol', 'p': p, 'dec_kwargs': bp})
        vs = codes.deformation_variants(name)
        if len(vs) > 1 and tier != 'quick':
            cfgs.append({'decoder': 'BeliefPropagationOSDDecoder', 'code': name,
                         'size': list(size), 'code_def': vs[1][0], 'code_def_kw': vs[1][1],
                         'noise': 'Zbias', 'p': 0.03, 'dec_kwargs': bp})
    # the Bayesian channel update between the Z and the X decoding is the one
    # piece of decoder state that is rewritten on every call
    bpu = {'max_bp_iter': 15, 'osd_order': 0, 'channel_update': True}
    for cname, size, p in [('Toric2DCode', (3, 4), 0.08), ('Planar2DCode', (3, 3), 0.1),
                           ('RotatedPlanar2DCode', (4, 4), 0.1), ('Toric3DCode', (2, 2, 3), 0.04),
                           ('Color666PlanarCode', (1, 1), 0.15)]:
        for noise in (('depol', 'Zbias') if tier != 'quick' else ('depol',)):
            cfgs.append({'decoder': 'BeliefPropagationOSDDecoder', 'code': cname,
                         'size': list(size), 'noise': noise, 'p': p, 'dec_kwargs': dict(bpu)})
    # non-CSS (Clifford-deformed) codes take the decoder's other branch: one
    # joint BP-OSD object whose internal state lives in the compiled library
    for cname, size, cd, p in [('Toric2DCode', (3, 3), 'XZZX', 0.1), ('Toric2DCode', (3, 4), 'XY', 0.1),
                               ('Planar2DCode', (3, 3), 'XZZX', 0.1), ('Toric3DCode', (2, 2, 3), 'XZZX', 0.05)]:
        for kw_ in (bp, {}):
            cfgs.append({'decoder': 'BeliefPropagationOSDDecoder', 'code': cname, 'size': list(size),
                         'code_def': cd, 'code_def_kw': {}, 'noise': 'depol', 'p': p,
                         'dec_kwargs': dict(kw_)})
    # two decoder objects at different rates taking turns (nothing may leak from
    # one to the other), on channels with structural zeros
    for cname, size, noise, nd, p, ip in [('Toric2DCode', (3, 3), 'X', None, 0.1, 0.45),
                                          ('Toric2DCode', (3, 4), 'Z', 'XZZX', 0.1, 0.4),
                                          ('Planar2DCode', (3, 3), 'depol', None, 0.08, 0.3),
                                          ('RotatedPlanar2DCode', (3, 3), 'Y', None, 0.1, 0.45)]:
        cfgs.append({'decoder': 'BeliefPropagationOSDDecoder', 'code': cname, 'size': list(size),
                     'noise': noise, 'noise_def': nd, 'noise_def_kw': {} if nd else None, 'p': p,
                     'dec_kwargs': dict(bpu), '_intruder_p': ip})
    cfgs.append({'decoder': 'MatchingDecoder', 'code': 'Toric2DCode', 'size': [3, 4], 'noise': 'Zbias',
                 'p': 0.08, '_intruder_p': 0.3})
    # channels with structural zeros (pure X / Z / Y) for the decoders that
    # derive matching weights from the channel
    for dname, cname, size, noise in [('MatchingDecoder', 'Toric2DCode', (3, 4), 'X'),
                                      ('MatchingDecoder', 'Planar2DCode', (3, 3), 'Z'),
                                      ('MatchingDecoder', 'RotatedPlanar2DCode', (3, 3), 'Y'),
                                      ('SweepMatchDecoder', 'Toric3DCode', (3, 3, 3), 'Z'),
                                      ('XCubeMatchingDecoder', 'XCubeCode', (2, 2, 2), 'Z')]:
        cfgs.append({'decoder': dname, 'code': cname, 'size': list(size), 'noise': noise, 'p': 0.08})
    cfgs.append({'decoder': 'UnionFindDecoder', 'code': 'Toric2DCode', 'size': [4, 4], 'noise': 'depol',
                 'p': 0.06, '_intruder_p': 0.2})
    # the randomised sweep decoders: no purity across objects is required, but
    # the caller's syndrome and the noise tables must be left alone
    for dname, cname, size in [('SweepMatchDecoder', 'Toric3DCode', (3, 3, 3)),
                               ('SweepMatchDecoder', 'Planar3DCode', (2, 3, 3)),
                               ('RotatedSweepMatchDecoder', 'RotatedPlanar3DCode', (3, 3, 2))]:
        cfgs.append({'decoder': dname, 'code': cname, 'size': list(size), 'noise': 'depol', 'p': 0.03})
    for size in [(4, 4), (3, 5)]:
        cfgs.append({'decoder': 'MatchingDecoder', 'code': 'Toric2DCode', 'size': list(size),
                     'noise': 'Zbias', 'p': 0.05})
        cfgs.append({'decoder': 'UnionFindDecoder', 'code': 'Toric2DCode', 'size': list(size),
                     'noise': 'depol', 'p': 0.05})
    cfgs.append({'decoder': 'MatchingDecoder', 'code': 'Planar2DCode', 'size': [4, 3],
                 'noise': 'depol', 'p': 0.08})
    cfgs.append({'decoder': 'XCubeMatchingDecoder', 'code': 'XCubeCode', 'size': [3, 3, 3],
                 'noise': 'Z', 'p': 0.02})
    for size in ([(2, 3, 2), (2, 2, 3), (3, 2, 2)] if tier == 'quick'
                 else [(2, 3, 2), (2, 2, 3), (3, 2, 2), (2, 3, 4), (4, 2, 3)]):
        cfgs.append({'decoder': 'XCubeMatchingDecoder', 'code': 'XCubeCode', 'size': list(size),
                     'noise': 'depol', 'p': 0.06})
    cfgs.append({'decoder': 'MemoryBeliefPropagationDecoder', 'code': 'RotatedPlanar2DCode',
                 'size': [3, 4], 'noise': 'depol', 'p': 0.08, 'dec_kwargs': {'max_bp_iter': 8}})
    cfgs.append({'decoder': 'MatchingDecoder', 'code': 'RotatedPlanar2DCode', 'size': [3, 5],
                 'noise': 'Zbias', 'p': 0.08, 'noise_def': 'XZZX', 'noise_def_kw': {}})
    if tier != 'quick':
        # one decoder object in service for a very long time (tens of thousands
        # of tie-breaks): a resource that runs out must not make later decodes fail
        cfgs.append({'decoder': 'SweepMatchDecoder', 'code': 'Toric3DCode', 'size': [3, 3, 3],
                     'noise': 'Z', 'p': 0.5, '_calls': 24000})
        cfgs.append({'decoder': 'RotatedSweepMatchDecoder', 'code': 'RotatedPlanar3DCode', 'size': [3, 3, 2],
                     'noise': 'Z', 'p': 0.3, '_calls': 6000})
    # BP-OSD and matching on deformed noise, the reused object also serving trials at
    # another rate in between
    cfgs.append({'decoder': 'BeliefPropagationOSDDecoder', 'code': 'Toric2DCode', 'size': [3, 5],
                 'noise': 'Zbias', 'p': 0.05, 'noise_def': 'XZZX', 'noise_def_kw': {},
                 'dec_kwargs': {'max_bp_iter': 10, 'osd_order': 0}, '_trial_at_rate': 0.45})
    cfgs.append({'decoder': 'BeliefPropagationOSDDecoder', 'code': 'RotatedPlanar2DCode', 'size': [3, 3],
                 'noise': 'Zbias', 'p': 0.3, 'noise_def': 'XZZX', 'noise_def_kw': {},
                 'dec_kwargs': {'max_bp_iter': 10, 'osd_order': 0, 'bp_method': 'product_sum'}, '_trial_at_rate': 0.02})
    cfgs.append({'decoder': 'MatchingDecoder', 'code': 'Planar2DCode', 'size': [3, 4],
                 'noise': 'Zbias', 'p': 0.05, 'noise_def': 'XZZX', 'noise_def_kw': {}, '_trial_at_rate': 0.4})
    for c in cfgs:
        c['_long'] = True
    return cfgs


@common.safe
def drive(cfg):
    tier = cfg.pop('_tier')
    long_hist = cfg.pop('_long', False)
    intruder_p = cfg.pop('_intruder_p', None)
    trial_rate = cfg.pop('_trial_at_rate', None)
    calls = cfg.pop('_calls', None)
    rng = np.random.default_rng(common.seed() + abs(hash(D.config_label(cfg))) % 2**31)
    rec = D.Recorder(cfg)
    code, em = rec.code, rec.em
    if not rec.construct(0):
        return rec.record()
    intruder = None
    if intruder_p is not None:
        # ANOTHER decoder object of the same class on the same code and noise
        # model, at another error rate, works in between the recorded calls
        import contextlib
        import io
        intruder = D.new_decoder(dict(cfg, p=intruder_p), code, em)
        irng = np.random.default_rng(77)

        def intrude():
            with contextlib.redirect_stdout(io.StringIO()):
                e = em.generate(code, min(0.3, intruder_p), rng=irng)
                intruder.decode(np.asarray(code.measure_syndrome(e)).ravel())
    m = code.stabilizer_matrix.shape[0]
    if long_hist:
        n_calls = calls or (120 if tier == 'quick' else 400)
        syns = [np.asarray(code.measure_syndrome(em.generate(code, cfg['p'], rng=rng))).ravel()
                for _ in range(n_calls // 2)]
        pool = syns[:]
        seq = []
        for s in syns:                      # interleave with repeats and zeros
            seq.append(s)
            r = rng.random()
            seq.append(np.zeros(m, dtype=np.uint8) if r < (0.05 if calls else 0.3) else pool[int(rng.integers(len(pool)))])
        distinct = {s.tobytes(): s for s in seq}
        mode = f'random history of {len(seq)} calls'
    else:
        allsyn = D.all_syndromes(code, 300)
        cap = 24 if tier == 'quick' else 64
        if allsyn is not None and len(allsyn) <= cap:
            order = euler_sequence(len(allsyn))
            seq = [allsyn[j] for j in order]
            distinct = {s.tobytes(): s for s in allsyn}
            mode = f'all {len(allsyn)}^2 ordered pairs of valid syndromes'
        else:
            if allsyn is None:
                allsyn = [np.asarray(code.measure_syndrome(em.generate(code, 0.2, rng=rng))).ravel()
                          for _ in range(200)]
            zero = np.zeros(m, dtype=np.uint8)
            sub = [zero] + [allsyn[int(j)] for j in rng.permutation(len(allsyn))[:cap - 1]]
            # sector-wise zero syndromes
            xi, zi = np.asarray(code.x_indices), np.asarray(code.z_indices)
            for s in list(sub[1:4]):
                a = s.copy(); a[xi] = 0
                b = s.copy(); b[zi] = 0
                sub += [a, b]
            uniq = list({s.tobytes(): s for s in sub}.values())
            order = euler_sequence(len(uniq))
            seq = [uniq[j] for j in order]
            distinct = {s.tobytes(): s for s in uniq}
            mode = f'all ordered pairs of {len(uniq)} valid syndromes (incl. zero and sector-wise zero)'
    for j_, s in enumerate(seq):
        if intruder is not None and j_ % 2 == 0:
            intrude()
        if trial_rate is not None and j_ % 3 == 1:
            # the reused decoder serves a whole trial of a simulation that runs at ANOTHER
            # error rate than the one it was built for (run_once takes the two separately)
            import contextlib
            import io
            from panqec.simulation import run_once
            with contextlib.redirect_stdout(io.StringIO()):
                run_once(code, em, rec.objs[0], trial_rate, rng=np.random.default_rng(j_))
        rec.decode(0, s.astype(np.uint8))
    # every distinct syndrome once on a fresh object
    for k, s in enumerate(list(distinct.values())[:(300 if calls else None)], start=1):
        if rec.construct(k):
            rec.decode(k, s.astype(np.uint8))
            rec.objs.pop(k, None)
    r = rec.record()
    r['_mode'] = mode
    r['_history'] = len(seq)
    r['_fresh'] = len(distinct)
    return r


INTERRUPTED_SUBJECTS = [
    {'decoder': 'MatchingDecoder', 'code': 'Planar2DCode', 'size': [3, 3], 'noise': 'depol', 'p': 0.15},
    {'decoder': 'UnionFindDecoder', 'code': 'Toric2DCode', 'size': [4, 4], 'noise': 'depol', 'p': 0.12},
    {'decoder': 'BeliefPropagationOSDDecoder', 'code': 'Toric2DCode', 'size': [3, 3], 'noise': 'Zbias', 'p': 0.1,
     'dec_kwargs': {'max_bp_iter': 6, 'osd_order': 0}},
    {'decoder': 'BeliefPropagationOSDDecoder', 'code': 'RotatedPlanar2DCode', 'size': [3, 3], 'noise': 'depol', 'p': 0.1,
     'dec_kwargs': {'max_bp_iter': 6, 'osd_order': 0, 'channel_update': True}},
    {'decoder': 'MemoryBeliefPropagationDecoder', 'code': 'Toric2DCode', 'size': [2, 3], 'noise': 'depol', 'p': 0.1,
     'dec_kwargs': {'max_bp_iter': 4}},
    {'decoder': 'SweepMatchDecoder', 'code': 'Toric3DCode', 'size': [3, 3, 3], 'noise': 'depol', 'p': 0.05},
    {'decoder': 'RotatedSweepMatchDecoder', 'code': 'RotatedPlanar3DCode', 'size': [3, 3, 2], 'noise': 'depol', 'p': 0.05},
    {'decoder': 'XCubeMatchingDecoder', 'code': 'XCubeCode', 'size': [2, 2, 3], 'noise': 'depol', 'p': 0.06},
    {'decoder': 'XCubeMatchingDecoder', 'code': 'XCubeCode', 'size': [3, 3, 3], 'noise': 'Z', 'p': 0.03},
]


@common.safe
def drive_interrupted(cfg):
    """A history in which some decode calls are cut short by a KeyboardInterrupt
    (a Ctrl-C during a trial of a simulation that is then resumed): the caller's
    array and the noise tables stay intact, and the calls that follow give what a
    fresh decoder gives."""
    cfg = dict(cfg)
    tier = cfg.pop('_tier')
    part, parts = cfg.pop('_part')
    rng = np.random.default_rng(common.seed() + part)
    rec = D.Recorder(cfg)
    code, em = rec.code, rec.em
    if not rec.construct(0):
        return rec.record()
    syns = [np.asarray(code.measure_syndrome(em.generate(code, cfg['p'] * (1 + j % 3), rng=rng))).ravel()
            for j in range(40)]
    syns = [s for s in syns if np.any(s)] or syns
    # how many lines a decode of this kind executes
    from .c12_points import Interrupter
    import sys
    probe = Interrupter(10 ** 12)
    import contextlib
    import io
    sys.settrace(probe)
    try:
        with contextlib.redirect_stdout(io.StringIO()):
            D.new_decoder(cfg, code, em).decode(syns[0].astype(np.uint8))
    finally:
        sys.settrace(None)
    total = max(probe.n, 2)
    n_pts = 24 if tier == 'quick' else 120
    ks = sorted({1 + int(x) for x in np.linspace(0, total - 1, n_pts * parts)})[part::parts]
    for j, k in enumerate(ks):
        s = syns[j % len(syns)]
        rec.decode(0, s.astype(np.uint8))
        rec.interrupted_decode(0, syns[(j + 1) % len(syns)], k)
        rec.decode(0, syns[(j + 2) % len(syns)].astype(np.uint8))
    distinct = {s.tobytes(): s for s in syns}
    for k, s in enumerate(distinct.values(), start=1):
        if rec.construct(k):
            rec.decode(k, s.astype(np.uint8))
            rec.objs.pop(k, None)
    r = rec.record()
    r['_mode'] = f'history with {len(ks)} decode calls ended by KeyboardInterrupt'
    r['_history'] = 3 * len(ks)
    r['_fresh'] = len(distinct)
    return r


def run(tier):
    t0 = time.time()
    v = common.Verdict('C06')
    cfgs = tiny_configs(tier) + larger_configs(tier)
    for c in cfgs:
        c['_tier'] = tier
    recs = common.pmap(drive, cfgs, procs=15)
    icfgs = [dict(c, _tier=tier, _part=(part, 3)) for c in INTERRUPTED_SUBJECTS for part in range(3)]
    recs += common.pmap(drive_interrupted, icfgs, procs=15)
    recs = common.split_raised('C06', v, recs)
    for j, r in enumerate(recs):
        r['id'] = j
    rej, st = D.eval_traces(recs, 'c06')
    for r in recs:
        mine = [c for c in rej.get(r['id'], []) if c.split('@')[0] in D.C06_CLAUSES]
        if mine:
            pos = sorted(int(c.split('@')[1]) for c in mine)[0]
            v.reject(D.finding_key('C06', r, mine),
                     {'config': r['_label'], 'mode': r.get('_mode'),
                      'failed': sorted(set(mine))[:10],
                      'first_bad_event_position': pos,
                      'first_bad_event': r['events'][pos - 1],
                      'previous_event': r['events'][pos - 2] if pos >= 2 else None})
    def _corrupt(r):
        if not r['deterministic'] or r['id'] in rej:
            return None
        dec = [j for j, e in enumerate(r['events']) if e['kind'] == 'decode' and not e['raised']]
        seen = {}
        for j in dec:
            key = tuple(r['events'][j]['syn'])
            if key in seen:
                cz = r['events'][j]['corr']['z']
                r['events'][j]['corr']['z'] = cz[1:] if cz else [0]
                r['events'] = r['events'][:j + 1]
                return r
            seen[key] = j
        return None
    common.binding_selftest('c06', 'DecoderContract', recs, _corrupt,
                            evaluator=lambda rr: D.eval_traces(rr, 'c06-selftest', shards=1))
    rc = v.finish()
    n_dec = sum(1 for r in recs for e in r['events'] if e['kind'] == 'decode')
    common.write_evidence(
        'C06', tier, 'model_checking',
        {
            'states': st['distinct'], 'transitions': st['generated'],
            'traces_validated_against_impl': len(recs),
            'samples': [{'config': r['_label'], 'mode': r.get('_mode'),
                         'history_calls': r.get('_history'), 'fresh_objects': r.get('_fresh')}
                        for r in recs[::max(1, len(recs) // 8)]],
            'evaluations': n_dec,
            'distinct_nontrivial': sum(r.get('_fresh', 0) for r in recs),
            'rule': 'per configuration one history on a reused decoder: an '
                    'Eulerian sequence containing every ordered pair of the '
                    'valid syndromes of a tiny code (or of a subset incl. the '
                    'zero and sector-wise zero syndromes), or a random long '
                    'history with repeats; then each distinct syndrome once on '
                    'a fresh object; non-trivial = distinct syndromes decoded '
                    'by both a reused and a fresh object',
            'configurations': len(recs), 'decode_events': n_dec,
            'exhaustive': False,
        },
        time.time() - t0, len(v.violations),
        assumptions=['decoders without internal randomness: Matching, '
                     'UnionFind, BP-OSD, MBP, XCubeMatching; the sweep '
                     'decoders are only required to be valid in every history '
                     '(C05/C10)'])
    print(f'C06 {tier}: {len(recs)} configurations, {n_dec} decode events, '
          f'{len([1 for r in recs if any(c.split("@")[0] in D.C06_CLAUSES for c in rej.get(r["id"], []))])} '
          f'configurations rejected, {time.time()-t0:.1f}s')
    return rc


def main():
    tier = sys.argv[1] if len(sys.argv) > 1 else 'quick'
    common.main_wrapper(lambda: run(tier))


if __name__ == '__main__':
    main()
