"""Regenerates /verif/MANIFEST.json from the table below (single source)."""
import json
import os

VERIF = os.path.dirname(os.path.dirname(os.path.abspath(__file__)))

# id -> (category, text, design_ref, level_note, technique, engine)
CHECKS = {}

NOT_APPLICABLE = {
}

ALL = [f'C{i:02d}' for i in range(1, 21)]


def check(pid, category, text, ref, note, technique, engine):
    CHECKS[pid] = dict(category=category, text=text, ref=ref, note=note,
                       technique=technique, engine=engine)


check('C01', 'model_checking',
      'TLC evaluates Pauli!ValidCode (commutation, logical pairing, GF(2) '
      'rank n-k, independence) on the export of every (class, supported size '
      'up to the bound, deformation, axis) object; exhaustive inside the '
      'stated bounds, which is the quantifier of the property.',
      'DESIGN.md 4/C01',
      'Trusted: TLC, the projection in harness/codes.py (reads the public '
      'arrays stabilizer_matrix / logicals_x / logicals_z), the supported '
      'size families in domain/supported.json.',
      'TLA+ spec (Pauli.tla) + TLC data-driven validation of exported code '
      'objects; native lattice models',
      'tlc-data')

check('C02', 'model_checking',
      'C02_Model.tla: TLC proves the derivation theorems (dict<->BSF '
      'bijection, sector decoupling, block shapes) on every small lattice '
      'definition and emits them; each is built as a user-defined '
      'StabilizerCode subclass.  C02_Data.tla: TLC re-derives every derived '
      'view (matrix rows, masks, Hx/Hz, conversions, syndromes, sectors) of '
      'every library object of the C01 domain and of every user-defined '
      'code from the primitive lattice definition, and compares exports made '
      'under different hash seeds.',
      'DESIGN.md 4/C02',
      'Trusted: TLC, projection in harness/codes.py and harness/c02.py; '
      'random operators per object are seeded.',
      'TLA+ spec (CodeObject.tla) model-checked + spec->code generated '
      'user-defined codes + code->spec validation by TLC',
      'tlc-data')

check('C04', 'model_checking',
      'For every library code with n <= 6 (quick) / 8 (thorough) the '
      'verdicts of in_codespace, logical_errors (single and stacked), '
      'is_logical_error, is_success and run_once are recorded for all 4^n '
      'operators and TLC compares them with membership in the stabilizer '
      'group built as a closure (no rank argument); larger codes by basis '
      'vectors, generators, logicals and random coset representatives with '
      'membership by elimination.',
      'DESIGN.md 4/C04',
      'Trusted: TLC; run_once driven with scripted error model / null '
      'decoder.',
      'TLA+ spec (Pauli.tla StabGroup/Effect) + TLC validation of exhaustive '
      'recorded verdicts',
      'tlc-data')

check('C16', 'exploration',
      'Threshold.tla owns what is discrete in C16: the documented ansatz in '
      'exact integer arithmetic (nu = 1), the box of well-conditioned planted '
      'cases, the layouts (row orders, splits over files, path orders) and '
      'the case analysis of get_fit_status; TLC checks conditioning, monotone '
      'curves crossing at p_th only and success <=> plausible on 25 600 '
      'entries, and emits the domain.  Every case is materialised as real '
      'result files lying on the ansatz, in several layouts; the real '
      'Analysis.calculate_thresholds estimates; the real get_fit_status is '
      'called on every grid entry; C16_Data.tla (TLC) judges the reported '
      'numbers (threshold within 5 reported standard errors or 1% of the '
      'planted one, inside its confidence interval and the data range, '
      'flagged successful, equal under every layout; X and Z sector '
      'thresholds planted separately).  The optimiser '
      '(curve_fit + bootstrap) is observed, not modelled: this is a grid '
      'exploration, not a proof about the optimiser.',
      'DESIGN.md 4/C16, 5',
      'Trusted: TLC; the float evaluation of the ansatz for nu != 1 in the '
      'harness (for nu = 1 TLC re-derives the planted counts); the tolerance '
      'stated in C16_Data.tla.',
      'TLA+ model of the ansatz / planted box / status case analysis checked '
      'by TLC + spec->code replay on planted result files, reported numbers '
      'judged by TLC (optimiser observed only)',
      'tlc-data')

check('C17', 'model_checking',
      'DistanceSearch.tla makes the minimum-weight search a state machine: '
      'TLC breadth-first explores every operator of weight < d reachable '
      'under a complete pruning rule on the exported stabilizers/logicals of '
      'every (class, size) with d <= 5 (quick) / 6 (thorough) and of long '
      'thin lattices with d <= 10 (one letter per run for CSS codes); tiny codes are '
      'also brute-forced over all 4^n operators (C17_Brute.tla); the pruning '
      'lemma is self-tested on every run by overstating d.  The other '
      'direction (d is the weight of a genuine non-trivial logical operator) '
      'is C17_Witness.tla on every code.',
      'DESIGN.md 4/C17',
      'Trusted: TLC; C01 for "zero syndrome and zero effect => stabilizer"; '
      'nothing claimed beyond the explored sizes.',
      'TLA+ state-machine search (DistanceSearch.tla) run by TLC on exported '
      'code data',
      'tlc-data')

check('C03', 'model_checking',
      'PauliMC.tla: TLC checks bilinearity, symmetry, alternation and '
      'inverse encodings for all operators on 3 qubits (and the group '
      'theorems on hard-wired codes).  C03_Data.tla: every ordered pair of '
      'operators on n <= 3 qubits through bs_prod in every representation '
      'pair (list / ndarray of 7 dtypes, 1-D and 2-D / csr), stacks, random '
      'stacks to n = 600 incl. overlaps > 255, every conversion of every '
      'operator, brank and the bsparse helpers; TLC recomputes each result.',
      'DESIGN.md 4/C03',
      'Trusted: TLC; the harness builds Pauli strings from operator letters.',
      'TLA+ algebra model (PauliMC.tla) + TLC validation of recorded call '
      'results (one record per model state / input)',
      'tlc-data')

check('C08', 'model_checking',
      'C08_Data.tla: for every deformed (class,size,name,axis) TLC checks '
      'the per-qubit relabelling is a fixed permutation with the named '
      'semantics (XZZX: Hadamard exactly on axis qubits; XY: Y<->Z), every '
      'stabilizer and logical is the image of the undeformed one, n/k/d and '
      'commutation preserved, syndrome/effect equivalence on probes, and the '
      'deformed noise tables are relabelled by the same D.  CodeLifecycle.tla: '
      'the deform()/lazy-cache life-cycle is explored exhaustively (327k '
      'states) with two negative controls; TLC-generated behaviours are '
      'replayed on real objects and the event logs validated by '
      'CodeLifecycle_Trace.tla.',
      'DESIGN.md 4/C08',
      'Trusted: TLC; fresh objects deformed once are the life-cycle '
      'reference (their own correctness is the data-driven part).',
      'TLA+ life-cycle state machine model-checked + spec->code replay of '
      'TLC behaviours + code->spec trace validation; data-driven image check',
      'tlc-data')

check('C12', 'model_checking',
      'Batch.tla models BatchSimulation with one action per interruptible '
      'step (load, three list appends + increment per trial, save '
      'enter/begin/open/write/close/rename, KeyboardInterrupt with the '
      'retry-once handler, process kill, restart with grown spec / larger '
      'target, an interrupt between the last trial and the try block of '
      'save_results, the final save of a run with nothing left to do).  TLC '
      'explores the atomic-save design exhaustively (308 204 '
      'states, plain and gzip) for Completes, ExactCounts, NoDup, NoForeign, '
      'LoadAdoptsLastGood, PrefixKept and refutes the non-atomic, no-repair '
      'and no-tail-save variants; liveness under fairness.  '
      'Behaviours generated by TLC (<= 3 process runs, one planned fault per '
      'run at a named control point) are replayed on the real '
      'BatchSimulation in forked children with the fault injected at that '
      'point; after every process end the projected results file and memory '
      'are recorded.  The verdict is C12_Data.tla: TLC evaluates C12\'s own '
      'predicates (completion, exact counts, saved trials kept as a prefix, '
      'no duplicate, no foreign record, a completed save never destroyed) '
      'on every observed execution; state-by-state equality with Batch.tla '
      'is reported as a conformance count.  In addition real trials of '
      'eight decoder families are interrupted at every k-th line of library '
      'code, resumed on the same object and by fresh objects, and judged by '
      'the same module (kind point).',
      'DESIGN.md 4/C12',
      'Trusted: TLC; stub run_once issuing unique trial ids; kills realised '
      'by os._exit at byte-stream points (no power-loss reordering).',
      'TLA+ state machine (Batch.tla) model-checked + spec->code replay of '
      'TLC behaviours with fault injection at modelled control points, '
      'observed executions judged by TLC (C12_Data.tla)',
      'tlc-data')

check('C14', 'model_checking',
      'Parallel.tla transcribes run-parallel\'s task/trial arithmetic; TLC '
      'proves totals, >=1 trial per task and coverage of every input on the '
      'whole grid I<=6,N<=4,C<=8,T<=64 and refutes the snapshot\'s remainder '
      'rule.  The real command is driven for every grid configuration and '
      'job index with Process/cpu_count substituted; TLC judges the recorded '
      'tasks (C14_Data.tla).  End to end: Pipeline.tla composes that '
      'arithmetic with BatchSimulation\'s resume rule and Analysis\' pooling '
      '(job orders, re-runs, --delete-existing, tasks stopped early, '
      'extended requests, inputs that grow between runs, jobs launched '
      'directly or through the generated cluster script; exhaustive, 56k / '
      '740k states); behaviours from '
      'TLC\'s simulation are executed on the real command with real '
      'processes and result files, and Pipeline_Trace.tla validates what the '
      'files and Analysis show after every step.',
      'DESIGN.md 4/C14, 9',
      'Trusted: TLC; substitution of multiprocessing in panqec.cli (grid '
      'part); a task stopped early is realised by a smaller target.',
      'TLA+ arithmetic model checked exhaustively + spec->code grid replay '
      'through the real CLI callback + end-to-end Pipeline.tla behaviours '
      'executed on the real command and trace-validated by TLC',
      'tlc-data')

check('C13', 'model_checking',
      'InputSpec.tla defines the bag of simulations a specification denotes; '
      'InputSpec_Model.tla enumerates every shape (ranges / list of ranges / '
      'runs, 1..K values per axis, dict and list parameter forms, decoder '
      'parameters absent / dict / list), checks the denotation and emits the '
      'shapes; each is materialised, read by read_input_dict and '
      'expand_input_ranges, and TLC (C13_Data.tla) judges the simulations '
      'built as a bag against ExactlyRequested, plus every registry entry '
      'and a rebuild-from-recorded-inputs per code class.',
      'DESIGN.md 4/C13',
      'Trusted: TLC; the harness\'s bijection between abstract parameter '
      'indices and concrete parameter values.',
      'TLA+ denotation (InputSpec.tla) + TLC-enumerated specification shapes '
      'replayed through the real reader, judged by TLC',
      'tlc-data')

check('C19', 'model_checking',
      'GenInput.tla defines the requested grid (sizes x bias ratios x rates), '
      'the inclusive arithmetic progression on a decimal grid and the bias '
      'direction as exact rationals; GenInput_Model.tla checks them (sum to '
      'one, inclusive, nothing beyond max) over the enumerated argument '
      'combinations and emits these; each is run through the real '
      'generate-input command, every specification written is read back by '
      'the simulator and TLC (C19_Data.tla) judges the union against '
      'Requested: nothing missing, duplicated or outside, one specification '
      'per bias ratio.',
      'DESIGN.md 4/C19',
      'Trusted: TLC; floats matched to the rationals of the spec within 1e-9.',
      'TLA+ grid/rational model checked + TLC-enumerated CLI invocations '
      'replayed through the real command and judged by TLC',
      'tlc-data')

check('C05', 'model_checking',
      'DecoderContract.tla replays the event log of one reused decoder '
      'object per configuration (every decoder x every code it declares - '
      'all 16 classes for BP-OSD/MBP, plain and deformed/non-CSS - x sizes '
      'incl. non-cubic x noise directions/deformations x rates): '
      'construction, then zero / weight-1 / random / all valid syndromes; '
      'TLC judges every event: no exception, binary length-2n result, '
      'complete decoders reproduce the syndrome (per sector for '
      'error_type), zero syndrome -> zero correction.',
      'DESIGN.md 4/C05',
      'Trusted: TLC; PyMatching/ldpc are observed, not trusted. Two recorded '
      'findings (union-find on side-2 tori; RotatedSweepMatch on non-CSS '
      'RotatedToric3D) print KNOWN-FINDING.',
      'TLA+ contract state machine (DecoderContract.tla) + code->spec trace '
      'validation of decoder event logs by TLC',
      'tlc-data')

check('C06', 'model_checking',
      'Call histories derived from the specification\'s domain (an Eulerian '
      'sequence containing every ordered pair of the valid syndromes of a '
      'tiny code, incl. zero and sector-wise zero syndromes; random long '
      'histories with repeats on every code class) are replayed on one '
      'reused decoder and each distinct syndrome on a fresh one; '
      'DecoderContract.tla\'s memo history variable makes TLC reject any '
      'decode whose result differs from an earlier result for the same '
      'syndrome (any object), and any call that modifies the caller\'s '
      'syndrome or the noise model\'s probability tables, and any syndrome '
      'that is decoded at one point of a history and raises at another.  '
      'Histories also contain decode calls ended by KeyboardInterrupt at '
      'swept lines (event kind interrupted).',
      'DESIGN.md 4/C06',
      'Trusted: TLC; which decoders are deterministic (all but the sweep '
      'decoders).',
      'TLA+ memo-history contract (DecoderContract.tla) + spec-generated '
      'call histories replayed and validated by TLC',
      'tlc-data')

check('C10', 'model_checking',
      'Sweep.tla defines what a flip does (toggle the anticommuting faces; '
      'toggle the edge in the correction) and the invariants Tracks / '
      'CleanExit; Sweep_Model.tla explores the automaton on Toric3D 2x2x2 '
      'data (toggle holds, assign refuted).  Every edge of every home '
      'lattice is probed through flip_edge (geometry) and every sweep of '
      'every decode over single/pair/random Z errors and tie-break seeds is '
      'logged by wrapping sweep_move/flip_edge and replayed through '
      'Sweep.tla by TLC (Sweep_Trace.tla), each state judged.',
      'DESIGN.md 4/C10',
      'Trusted: TLC; wrapping of instance methods. Recorded finding: '
      'RotatedSweepDecoder3D on RotatedToric3DCode (geometry + automaton).',
      'TLA+ automaton spec (Sweep.tla) model-checked + code->spec validation '
      'of every logged sweep step and every edge by TLC',
      'tlc-data')

check('C07', 'model_checking',
      'Noise.tla models the channel over exact rationals on a grid (p = '
      'pn/Den, direction on the simplex incl. faces/vertices), its '
      'relabelling by a noise deformation, the inverse-CDF sampler, the flip '
      'marginals and the conditional updates; Noise_Model.tla checks over the '
      'whole grid that the sampler\'s measure equals the channel under every '
      'relabelling, p=0/p=1, total probability.  For every grid point x code '
      'x deformation the real probability tables, fast_choice and generate() '
      '(scripted generator returning the spec\'s midpoint variates; one '
      'variate per qubit in order), get_weights (inverted), BP-OSD channel '
      'probabilities (CSS and non-CSS ordering) and update_probabilities are '
      'compared with the spec by TLC (C07_Data.tla).',
      'DESIGN.md 4/C07',
      'Trusted: TLC; float->integer conversion (tables within 1e-12 of the '
      'grid; other floats at 2e-6); relabelling table read from the code '
      '(checked by C08).',
      'TLA+ rational channel/sampler model checked on the full grid + '
      'spec->code replay of every variate and grid point judged by TLC',
      'tlc-data')

check('C18', 'model_checking',
      'error_probability is recorded for all 4^n errors of small library '
      'codes on decimal channels (linear and log output, plain and deformed '
      'noise, r_y > 0, p = 0, p = 1); TLC (C18_Data.tla) recomputes the '
      'product of per-qubit numerators with Noise!PNum and the sum over all '
      'errors.  On larger codes a dyadic channel makes -log2 P an exact '
      'integer that TLC recomputes from per-qubit exponents; every '
      'likelihood evaluated by the splitting method\'s Metropolis step is '
      'spied on and judged the same way.  Splitting.tla models that step '
      '(proposal, acceptance bias 2^-max(0, Bits(new) - Bits(cur)), kept only '
      'if it still fails, reported likelihood); TLC checks symmetric '
      'proposal and detailed balance on all 2-qubit dyadic channels; the real '
      'get_next_error is driven with a scripted np.random and every step '
      '(offered Paulis, the bias handed to the coin, next error, reported '
      'likelihood) is validated against Splitting.tla.',
      'DESIGN.md 4/C18',
      'Trusted: TLC; acceptance of a float as an integer numerator within '
      '1e-9 relative.',
      'TLA+ product-channel spec (Noise.tla) + exhaustive recorded '
      'probabilities judged by TLC; Metropolis step (Splitting.tla) model-'
      'checked and trace-validated on the real step function',
      'tlc-data')

check('C11', 'model_checking',
      'Simulation.tla specifies the trial pipeline and DirectSimulation\'s '
      'accounting state machine; Simulation_Trace.tla replays logs of real '
      'simulations through its Run action: every trial of random '
      'interleavings of run(k) is judged (syndrome, effective error, '
      'codespace, success), the result lists at every call boundary, '
      'get_results\' estimator and standard error; identical seeds in fresh '
      'processes / different chunkings must give identical logs; and on '
      'n = 4 (5) codes the failure table over all 4^n errors plus the real '
      'simulation driven by the complete stratified variate grid (8^n '
      'trials) must give n_fail equal to the exact failure probability '
      'summed by TLC with Noise!PNum.',
      'DESIGN.md 4/C11',
      'Trusted: TLC; decoder purity (C06) for the failure table; floats '
      'compared at 2e-6.',
      'TLA+ trial/accounting spec + code->spec trace validation + exact '
      'stratified calibration decided by TLC',
      'tlc-data')

check('C09', 'model_checking',
      'C09_Data.tla: (1) for small toric / planar / rotated planar lattices '
      'and noise models with marginals < 1/2 (uniform, pure, biased, '
      'XZZX-deformed on each axis, several rates) the matching decoder\'s '
      'correction for every valid syndrome is compared per sector with the '
      'minimum cost over the full coset of solutions, which TLC computes by '
      'dynamic programming over qubits; (2) every Pauli error of weight <= '
      'floor((d-1)/2) (all supports and X/Y/Z assignments; TLC also checks '
      'the errors are the whole domain) must leave a stabilizer residual '
      'under matching (three lattice families) and union-find (toric); (3) '
      'every single-qubit error under the sweep-match decoders on their home '
      'lattices with d >= 3.',
      'DESIGN.md 4/C09',
      'Trusted: TLC; integer scaling of the float weights (slack n+1 units '
      'of 1e-4 covers rounding and PyMatching discretisation); C01. Recorded '
      'finding: rotated sweep-match on one-layer slabs.',
      'TLA+ coset-minimum by dynamic programming + domain-covering '
      'enumeration, both evaluated by TLC on recorded decodes',
      'tlc-data')

check('C15', 'model_checking',
      'Analysis.tla defines the pooled statistics of a multiset of trials; '
      'Analysis_Model.tla enumerates every partition of a 7-trial pool (two '
      'keys, k = 2 and k = 1, arbitrary effective-error/codespace patterns) '
      'into records, containers of every kind, repeated runs and orders '
      '(683k layouts) and checks pooling is layout independent; a '
      'pseudo-random sample of layouts is materialised as real files (json, '
      'json.gz, zip members, merge-results output), read by Analysis(paths), '
      'and every reported row is judged by TLC (C15_Data.tla): counts '
      'exactly, estimators/standard errors/word and single-qubit rates by '
      'cross-multiplication.',
      'DESIGN.md 4/C15',
      'Trusted: TLC; float comparisons at 2e-6 after the stated algebraic '
      'rearrangements.',
      'TLA+ pooling model checked over all layouts + spec->code replay of '
      'sampled layouts through the real Analysis class, judged by TLC',
      'tlc-data')

check('C20', 'model_checking',
      'Gui.tla models the client menu of main.js (change code with the '
      'updateMenu fall-backs, rotated / coprime toggles, L, deformations, '
      'decoder, error model) over tables taken from the library; TLC '
      'explores all reachable menu states (37k quick), proves the menu never '
      'holds a choice the backend does not offer and emits every request the '
      'menu can send inside the supported size family; each is posted to the '
      'Flask test client and TLC (C20_Data.tla) compares the response with '
      'objects built from the library: one description per qubit/stabilizer '
      'equal to the library\'s representation in index order and complete, '
      'H and logicals identical, decoder/deformation names exact, decode '
      'equal to the library decoder (several slider positions), new-errors '
      'supported on the model\'s Paulis; a decoder registered with '
      'add_decoder is offered exactly for the codes it declares.',
      'DESIGN.md 4/C20',
      'Trusted: TLC; main.js is transcribed by hand (no JS engine). '
      'Recorded finding: rotated picture of the three 2-D colour codes.',
      'TLA+ menu state machine model-checked + spec->code replay of every '
      'emitted request through the Flask test client, judged by TLC',
      'tlc-data')


def build():
    checks = []
    for pid in ALL:
        if pid not in CHECKS:
            continue
        c = CHECKS[pid]
        checks.append({
            'property_id': pid,
            'quick_cmd': f'bin/check {pid} quick',
            'thorough_cmd': f'bin/check {pid} thorough',
            'evidence_file': f'/verif/evidence/{pid}.json',
            'replay_cmd_template': f'bin/check {pid} quick --replay {{path}}',
            'engine': c['engine'],
            'level_claimed': {'category': c['category'], 'text': c['text'],
                              'design_ref': c['ref']},
            'level_note': c['note'],
            'technique': c['technique'],
        })
    na = []
    for pid in ALL:
        if pid in CHECKS:
            continue
        na.append({'property_id': pid,
                   'reason': NOT_APPLICABLE.get(
                       pid, 'check not built yet (work in progress; see '
                            'DESIGN.md section 7 for the order of '
                            'construction)')})
    m = {
        'version': 1,
        'setup_cmd': 'bin/setup',
        'hooks': {
            'guard': 'PANQEC_VERIF',
            'enable': 'no source hooks: instrumentation wraps public '
                      'methods from the harness; PANQEC_VERIF is reserved',
            'baseline_off_cmd': 'cd /repo && /venv/bin/python -m pytest -ra '
                                '-q -p no:cacheprovider --timeout=900 '
                                '--continue-on-collection-errors',
            'source_commits': [],
            'add_only': True,
        },
        'engines': [
            {'name': 'tlc-data', 'path': 'harness/common.py',
             'serves_properties': sorted(CHECKS),
             'kind_free_text': 'TLA+ modules under spec/ evaluated by TLC on '
                               'observations exported from the running '
                               'implementation (code->spec) and TLC-generated '
                               'behaviours replayed into it (spec->code)'},
        ],
        'checks': checks,
        'not_applicable': na,
        'notes': 'All verdicts are computed by TLC from spec/*.tla; see '
                 'DESIGN.md.',
    }
    with open(os.path.join(VERIF, 'MANIFEST.json'), 'w') as f:
        json.dump(m, f, indent=1)
    return m


if __name__ == '__main__':
    m = build()
    import jsonschema
    schema = json.load(open('/root/.vp/MANIFEST.schema.json'))
    jsonschema.validate(m, schema)
    print('MANIFEST ok:', len(m['checks']), 'checks,',
          len(m['not_applicable']), 'not applicable')
