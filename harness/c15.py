"""C15 - analysis aggregates are conserved however results are split.

model: Analysis_Model.tla enumerates every layout of a pool of trials (two
keys, k = 2 and k = 1; arbitrary effective-error / codespace patterns) over
containers of every kind (json, json.gz, zip members, merge-results output,
repeated runs) and checks that pooling is layout independent; a pseudo-random
sample of the layouts is emitted.
spec -> code: each emitted layout is materialised as real files (the inputs
blocks come from real DirectSimulation objects), read by Analysis(paths) and
the reported rows are judged by TLC (C15_Data.tla) against Analysis.tla.
"""
import contextlib
import gzip
import io
import json
import os
import shutil
import sys
import time
import zipfile

import numpy as np
from click.testing import CliRunner

from . import common

G = 1_000_000


NEAR = 1e-7       # two noise models this close are still two noise models


def key_sims(variant=0):
    """The two simulations A and B of Analysis.tla.  Variant 0: different codes and
    rates.  Variant 1: the same code, decoder and rate under two noise models that
    differ in the seventh decimal only (infinite bias next to a very high finite one)."""
    from panqec.codes import Toric2DCode, Planar2DCode
    from panqec.error_models import PauliErrorModel
    from panqec.decoders import MatchingDecoder
    from panqec.simulation import DirectSimulation
    out = {}
    if variant == 1:
        code = Toric2DCode(3, 3)
        for key, em in (('A', PauliErrorModel(0.0, 0.0, 1.0)), ('B', PauliErrorModel(NEAR, 0.0, 1.0 - NEAR))):
            out[key] = DirectSimulation(code, em, MatchingDecoder(code, em, 0.1), 0.1, verbose=False)
        return out
    em = PauliErrorModel(0.2, 0.3, 0.5)
    for key, code, p in (('A', Toric2DCode(3, 3), 0.1), ('B', Planar2DCode(3, 3), 0.07)):
        dec = MatchingDecoder(code, em, p)
        out[key] = DirectSimulation(code, em, dec, p, verbose=False)
    return out


def record_for(sim, pool, idxs, mult=1, float_form=0):
    from panqec.utils import NumpyEncoder
    ts = [pool[i - 1] for i in idxs for _ in range(mult)]
    res = {'n_runs': len(ts), 'wall_time': 0.5 * len(ts),
           'effective_error': [list(t['ee']) for t in ts],
           'success': [bool(t['ok']) for t in ts],
           'codespace': [bool(t['cs']) for t in ts]}
    out = json.loads(json.dumps({'results': res, 'inputs': sim._inputs}, cls=NumpyEncoder))
    if float_form:
        # the same nominal rate as another arithmetic produces it
        # (0.1 + 0.2 = 0.30000000000000004 for 0.3; np.arange leaves such tails)
        out['inputs']['error_rate'] = out['inputs']['error_rate'] + float_form * 2e-17 * 4
    return out


def materialise(layout, pool, sims, work, mult=1):
    """Write the containers; return the list of paths to hand to Analysis."""
    from panqec.cli import cli
    paths = []
    for ci, c in enumerate(layout):
        recs = [record_for(sims[pool[r[0] - 1]['key']], pool, r, mult, float_form=(ci // 2 + j_) % 2)
                for j_, r in enumerate(c['recs']) if r]
        kind = c['kind']
        # repeated-runs layout: every container sits in its own directory and
        # carries the same file name (run_0/results.zip, run_1/results.zip, ...)
        # (every fourth container sits in a hidden directory: .cache_<ci>)
        rdir = os.path.join(work, f'run_{ci}' if ci % 4 != 3 else f'.run_{ci}')
        os.makedirs(rdir, exist_ok=True)
        base = os.path.join(rdir, 'results')
        if kind == 'json':
            p = base + '.json'
            with open(p, 'w') as f:
                # a file holding a single simulation may be the bare record
                json.dump(recs[0] if (len(recs) == 1 and ci % 2 == 0) else recs, f)
            paths.append(p)
        elif kind == 'gz':
            p = base + '.json.gz'
            with gzip.open(p, 'wb') as f:
                f.write(json.dumps(recs).encode())
            paths.append(p)
        elif kind in ('zip_json', 'zip_gz'):
            p = base + '.zip'
            with zipfile.ZipFile(p, 'w') as zf:
                for j, r in enumerate(recs):
                    if kind == 'zip_json':
                        zf.writestr(f'results/part_{j}.json', json.dumps([r]))
                    else:
                        zf.writestr(f'results/part_{j}.json.gz',
                                    gzip.compress(json.dumps([r]).encode()))
            paths.append(p)
        elif kind == 'merged':
            if not recs:
                continue
            parts = []
            tmpd = os.path.join(work, f'parts{ci}')      # not handed to Analysis
            os.makedirs(tmpd, exist_ok=True)
            for j, r in enumerate(recs):
                pp = os.path.join(tmpd, f'p{j}.json')
                with open(pp, 'w') as f:
                    json.dump(r if j % 2 == 0 else [r], f)     # bare record / list of records
                parts.append(pp)
            if ci % 3 != 2:
                # a part that cannot be read (the zero-byte or cut-off file a killed
                # task leaves behind) is skipped by merge-results: the merged file
                # holds the readable parts, each once
                bp = os.path.join(tmpd, 'killed.json')
                with open(bp, 'w') as f:
                    f.write('' if ci % 3 == 0 else '[{"inputs": {"size": [3, 3]}, "resul')
                parts.insert(1 + ci % max(1, len(parts)), bp)
            p = base + '-merged.json.gz'
            res = CliRunner().invoke(cli, ['merge-results', '-o', p] + parts)
            if res.exit_code != 0:
                raise RuntimeError(f'merge-results failed: {res.exception!r}')
            shutil.rmtree(tmpd)
            paths.append(p)
    return paths


def fl(x):
    return float(x)


def observe(paths, variant=0):
    from panqec.analysis import Analysis, count_fails
    with contextlib.redirect_stdout(io.StringIO()):
        an = Analysis(paths, verbose=False)
    df = an.get_results()
    out = {}
    # sector columns: computed by the same code path the class uses
    sector_ok = True
    try:
        with contextlib.redirect_stdout(io.StringIO()):
            import warnings
            with warnings.catch_warnings():
                warnings.simplefilter('ignore')
                an.calculate_sector_thresholds()
    except Exception:
        sector_ok = False
    df = an.get_results()
    for _, row in df.iterrows():
        key = 'A' if row['code'] == 'Toric2DCode' else 'B'
        if variant == 1:
            key = 'A' if float(row['error_model_params']['r_z']) == 1.0 else 'B'
        k = int(row['k'])
        n = int(row['n_trials'])
        p, se = fl(row['p_est']), fl(row['p_se'])
        pw, pwse = fl(row['p_word_est']), fl(row['p_word_se'])
        o = {'present': True, 'k': k, 'n_trials': n, 'n_fail': int(row['n_fail']),
             'p_est_k': int(round(p * G)), 'p_se2n1_k': int(round(se ** 2 * (n + 1) * G)),
             'word_k': int(round((1 - pw) ** k * G)),
             'word_se2n1_k': int(round((pwse * k * (1 - pw) ** (k - 1)) ** 2 * (n + 1) * G))
             if np.isfinite(pwse) else -1}
        if sector_ok and 'n_fail_X' in df.columns and 'n_fail_Z' in df.columns:
            for s in 'XZ':
                o[f'n_trials_{s}'] = int(row[f'n_trials_{s}'])
                o[f'n_fail_{s}'] = int(row[f'n_fail_{s}'])
        else:
            cs = np.asarray(row['codespace'], dtype=bool)
            for s in 'XZ':
                o[f'n_trials_{s}'] = int(k * cs.sum())
                o[f'n_fail_{s}'] = int(count_fails(np.asarray(row['effective_error']), cs, s))
        est, ses = np.asarray(row['single_qubit_p_est']), np.asarray(row['single_qubit_p_se'])
        single = []
        for i in range(k):
            for j, s in enumerate(['any', 'X', 'Y', 'Z']):
                single.append({'i': i + 1, 's': s, 'est_k': int(round(fl(est[i, j]) * G)),
                               'se2n1_k': int(round(fl(ses[i, j]) ** 2 * (n + 1) * G))})
        o['single'] = single
        out[key] = o
    for key in ('A', 'B'):
        out.setdefault(key, {'present': False, 'k': 1, 'n_trials': 0, 'n_fail': 0, 'p_est_k': 0,
                             'p_se2n1_k': 0, 'word_k': 0, 'word_se2n1_k': 0, 'n_trials_X': 0,
                             'n_fail_X': 0, 'n_trials_Z': 0, 'n_fail_Z': 0, 'single': []})
    return out, int(len(df))


def drive(item):
    layout, pool, idx = item[:3]
    mult = item[3] if len(item) > 3 else 1
    work = common.scratch_dir(f'c15-{idx}')
    if idx % 5 == 2:
        # a data directory whose name holds characters that mean something to glob
        # (batch[2], run*1): it is a directory like any other
        work = os.path.join(work, ('batch[2]', 'run*1', 'what?')[(idx // 5) % 3])
        os.makedirs(work, exist_ok=True)
    rec = {'pool': pool, 'layout': layout, 'observed': {}, 'n_rows': 0, 'raised': '', 'mult': mult}
    try:
        variant = 1 if idx % 6 == 4 else 0
        sims = key_sims(variant)
        if variant == 1:
            # both simulations run on the two-qubit torus: B's trials (one logical qubit
            # in the model) get an idle second logical qubit
            pool = [dict(t, ee=[t['ee'][0], 0, t['ee'][1], 0]) if len(t['ee']) == 2 else t for t in pool]
            rec['pool'] = pool
        paths = materialise(layout, pool, sims, work, mult)
        # the ways a user names the same files: a list of files, the directory
        # that holds them (with and without a trailing slash), relative paths
        form = idx % 4
        cwd = os.getcwd()
        try:
            if form == 1:
                paths = work
            elif form == 2:
                paths = work.rstrip('/') + '/'
            elif form == 3:
                os.chdir(work)
                paths = [os.path.relpath(p_, work) for p_ in paths]
            rec['path_form'] = ['file list', 'directory', 'directory with trailing slash',
                                'relative paths'][form]
            rec['observed'], rec['n_rows'] = observe(paths, variant)
        finally:
            os.chdir(cwd)
    except Exception as ex:
        import traceback
        tb = traceback.extract_tb(ex.__traceback__)
        where = [f for f in tb if '/panqec/' in f.filename and '/site-packages/' not in f.filename]
        if not where:
            raise
        rec['raised'] = f'{type(ex).__name__}: {ex}'[:160]
        rec['observed'] = {}
    finally:
        shutil.rmtree(work, ignore_errors=True)
    if not rec['observed']:
        rec['observed'] = {k: {'present': False, 'k': 1, 'n_trials': 0, 'n_fail': 0, 'p_est_k': 0,
                               'p_se2n1_k': 0, 'word_k': 0, 'word_se2n1_k': 0, 'n_trials_X': 0,
                               'n_fail_X': 0, 'n_trials_Z': 0, 'n_fail_Z': 0, 'single': []}
                           for k in 'AB'}
    return rec


def layouts(tier):
    cfgs = ['Analysis_Model.cfg', 'Analysis_Model3.cfg'] if tier == 'quick' else \
        ['Analysis_Model_thorough.cfg', 'Analysis_Model3_thorough.cfg']
    out, pool, states, gen = [], None, 0, 0
    for cfg in cfgs:
        r = common.run_tlc('Analysis_Model', cfg=cfg, workers=16, timeout=3000, heap='8g')
        common.require_ok(r, cfg)
        if r['violation']:
            raise common.MachineryError('Analysis_Model violated:\n' + r['stdout'][-1200:])
        states += r['distinct']
        gen += r['generated']
        for v in common.printed(r['stdout']):
            if v[0] == 'LAYOUT':
                out.append(json.loads(v[1].replace('\\"', '"')))
            elif v[0] == 'POOL':
                pool = json.loads(v[1].replace('\\"', '"'))
    uniq = list({json.dumps(l, sort_keys=True): l for l in out}.values())
    return uniq, pool, states, gen


def run(tier):
    t0 = time.time()
    v = common.Verdict('C15')
    lays, pool, states, gen = layouts(tier)
    if pool is None or len(lays) < 20:
        raise common.MachineryError(f'too few layouts emitted: {len(lays)}')
    jobs = [(l, pool, j) for j, l in enumerate(lays)]
    # large data points: every trial of the pool stands for 300 identical trials
    # (counts beyond 255 per record and per pooled point)
    step = max(1, len(lays) // (8 if tier == 'quick' else 40))
    jobs += [(l, pool, len(lays) + j, 300) for j, l in enumerate(lays[::step])]
    recs = common.pmap(drive, jobs, procs=15)
    for j, r in enumerate(recs):
        r['id'] = j
        r['_cost'] = 10
    rejects, st = common.eval_records('C15_Data', recs, 'c15', shards=16)
    for r in recs:
        if r['id'] in rejects:
            cl = sorted(rejects[r['id']])
            v.reject('C15:' + ','.join(cl), {'layout': r['layout'], 'failed': cl,
                                             'raised': r['raised'],
                                             'observed': common.trim(r['observed'], 1500)})
    def _corrupt(r):
        if r['raised'] or not r['observed']['A']['present']:
            return None
        r['observed']['A']['n_fail'] += 1
        return r
    common.binding_selftest('c15', 'C15_Data', [r for r in recs if r['id'] not in rejects], _corrupt)
    rc = v.finish()
    kinds = {}
    for l in lays:
        for c in l:
            kinds[c['kind']] = kinds.get(c['kind'], 0) + 1
    common.write_evidence(
        'C15', tier, 'model_checking',
        {
            'states': states + st['distinct'], 'transitions': gen + st['generated'],
            'traces_validated_against_impl': len(recs),
            'samples': [lays[0], lays[len(lays) // 2], lays[-1]],
            'evaluations': len(recs),
            'distinct_nontrivial': len([l for l in lays if sum(len(c['recs']) for c in l) > 2]),
            'rule': 'layouts = pseudo-random sample (TLC RandomElement) of all '
                    'partitions of a 7-trial pool (k = 2 and k = 1 keys, '
                    'arbitrary effective-error / codespace patterns) into '
                    'records, containers (json / json.gz / zip of json / zip '
                    'of json.gz / merge-results output), repeated runs and '
                    'file orders; non-trivial = more than two records',
            'layouts_model_checked': states, 'layouts_replayed': len(recs),
            'container_kinds_replayed': kinds, 'exhaustive': False,
        },
        time.time() - t0, len(v.violations),
        assumptions=['floats are compared at 2e-6 after the algebraic '
                     'rearrangement given in C15_Data.tla',
                     'inputs blocks come from real DirectSimulation objects; '
                     'the result lists are the pool\'s patterns'])
    print(f'C15 {tier}: {states} layouts model-checked, {len(recs)} replayed, '
          f'{len(rejects)} rejected, {time.time()-t0:.1f}s')
    return rc


def main():
    tier = sys.argv[1] if len(sys.argv) > 1 else 'quick'
    common.main_wrapper(lambda: run(tier))


if __name__ == '__main__':
    main()
