"""End-to-end replay of Pipeline.tla behaviours on the real `panqec
run-parallel` command and `panqec.analysis.Analysis` (used by C14).

spec -> code: TLC (simulation of Pipeline.tla) emits behaviours: a
configuration (I inputs, N nodes, C cores) and a sequence of steps - run job j
(with or without --delete-existing), run job j with one task stopped early,
extend the request.  Each is executed for real: a data directory with I input
files (two simulations each), `run_parallel` called in-process so that it
starts its C real processes which write real results_k.json.gz files.
code -> spec: after every step the result files are read by an independent
reader and by Analysis; Pipeline_Trace.tla drives Pipeline's actions with the
logged events and judges the observations (C14 clauses = verdict; agreement
with the file-by-file state = note).
"""
import contextlib
import gzip
import io
import json
import os
import shutil

from . import common

RATE = {}          # error rate -> (input index, sim index)


def rate_of(i, s):
    return round(0.01 * (i + 1) + 0.003 * s, 6)


def input_spec(i, grown=False):
    return {'comments': '', 'ranges': {
        'label': f'input{i}',
        'code': {'name': 'Toric2DCode', 'parameters': [{'L_x': 2, 'L_y': 2}]},
        'error_model': {'name': 'PauliErrorModel',
                        'parameters': [{'r_x': 1 / 3, 'r_y': 1 / 3, 'r_z': 1 / 3}]},
        'decoder': {'name': 'MatchingDecoder'},
        # growing an input = appending a further error rate to it
        'error_rate': [rate_of(i, 0), rate_of(i, 1)] + ([rate_of(i, 2)] if grown else [])}}


class _StopEarly:
    """multiprocessing stand-in: the process writing `fname` gets the target
    `stop` instead of its own (what an interrupted task leaves behind: a valid
    file with fewer trials - C12); everything else is the real module."""

    def __init__(self, real, fname, stop):
        self._real, self._fname, self._stop = real, fname, stop

    def __getattr__(self, k):
        return getattr(self._real, k)

    def Process(self, target=None, args=(), kwargs=None, **kw):
        if os.path.basename(args[1]).split('.')[0] == self._fname:
            args = (args[0], args[1], self._stop)
        return self._real.Process(target=target, args=args, kwargs=kwargs or {}, **kw)


def read_files(results_dir, ntasks, ninputs, pos=None):
    pos = pos or {k: k for k in range(16)}      # number in the file name -> input index of run-parallel
    """Independent reader: trials per task file, totals per input."""
    digits = len(str(ntasks))
    files, filesb = [], []
    per_input = [[0, 0, 0] for _ in range(ninputs)]
    for t in range(ntasks):
        base = os.path.join(results_dir, f'results_{str(t + 1).zfill(digits)}.json')
        path = base + '.gz' if os.path.exists(base + '.gz') else base
        if not os.path.exists(path):
            files.append(-1)
            filesb.append(-1)
            continue
        try:
            if path.endswith('.gz'):
                with gzip.open(path, 'rb') as f:
                    data = json.loads(f.read().decode())
            else:
                with open(path) as f:
                    data = json.load(f)
            counts, added = [], []
            for rec in data:
                r = rec['results']
                n = int(r['n_runs'])
                lens = {len(r['effective_error']), len(r['success']), len(r['codespace'])}
                k_, s = RATE_LOOKUP[round(rec['inputs']['error_rate'], 6)]
                i = pos[k_]
                if lens != {n}:
                    n = -2
                else:
                    per_input[i][s] += n
                (added if s == 2 else counts).append(n)
            # the simulations an input had from the start advance in lock step
            files.append(counts[0] if len(counts) == 2 and len(set(counts)) == 1 and counts[0] >= 0 else -2)
            filesb.append(-1 if not added else (added[0] if len(added) == 1 and added[0] >= 0 else -2))
        except Exception:
            files.append(-2)
            filesb.append(-2)
    # other files in the directory (a task writing under an unexpected name)
    extra = [f for f in os.listdir(results_dir)
             if not f.startswith('results_')]
    totals = [p[0] if p[0] == p[1] else -2 for p in per_input]
    totalsb = [p[2] for p in per_input]
    return files, totals, extra, filesb, totalsb


RATE_LOOKUP = {rate_of(i, s): (i, s) for i in range(16) for s in range(3)}


def read_analysis(results_dir, ninputs, pos=None):
    pos = pos or {k: k for k in range(16)}
    from panqec.analysis import Analysis
    per_input = [[0, 0, 0] for _ in range(ninputs)]
    if not any(f.endswith(('.json', '.gz')) for f in os.listdir(results_dir)):
        return [0] * ninputs, [0] * ninputs
    try:
        with contextlib.redirect_stdout(io.StringIO()):
            an = Analysis(results_dir, verbose=False)
        df = an.get_results()
        for _, row in df.iterrows():
            key = round(float(row['error_rate']), 6)
            if key in RATE_LOOKUP and RATE_LOOKUP[key][0] in pos and pos[RATE_LOOKUP[key][0]] < ninputs:
                k_, s = RATE_LOOKUP[key]
                i = pos[k_]
                per_input[i][s] += int(row['n_trials'])
    except Exception as ex:      # reported as a note, not as a C14 violation
        return [-3] * ninputs, [-3] * ninputs
    return [p[0] if p[0] == p[1] else -2 for p in per_input], [p[2] for p in per_input]


def launch_through_script(cli, d, cluster, N, C, trials, job, delete, cores_omitted=False):
    """`panqec generate-cluster-script` writes the script for the scheduler; the line
    of it that starts the work is executed the way the scheduler's shell would
    for array index `job`: variables expanded, words split, `panqec` = cli."""
    import re
    import shlex
    header = os.path.join(d, 'header.sh')
    with open(header, 'w') as f:
        f.write('#!/bin/bash\n#job ${NAME} nodes ${N_NODES} cores ${N_CORES} time ${TIME} mem ${MEMORY}\n')
    script = os.path.join(d, f'run_{cluster}.sh')
    cli.generate_cluster_script.callback(
        header_file=header, output_file=script, data_dir=d, cluster=cluster, n_nodes=N,
        wall_time='0:10:00', memory='1G', trials=trials, n_cores=None if cores_omitted else C,
        delete_existing=delete)
    env = {'SGE_TASK_ID': str(job), 'SLURM_ARRAY_TASK_ID': str(job), 'PBS_ARRAY_INDEX': str(job),
           'JOB_ID': '1', 'SLURM_JOB_ID': '1', 'PBS_JOBID': '1'}
    with open(script) as f:
        lines = [ln.strip() for ln in f if ln.strip().startswith('panqec run-parallel')]
    if len(lines) != 1:
        raise RuntimeError(f'{len(lines)} run-parallel lines in the generated script')
    line = re.sub(r'\$\{?([A-Za-z_][A-Za-z_0-9]*)\}?', lambda m: env.get(m.group(1), ''), lines[0])
    words = shlex.split(line)
    cli.cli.main(args=words[1:], standalone_mode=False)


def replay(args):
    idx, beh, workroot = args
    import panqec.cli as cli
    devnull = os.open(os.devnull, os.O_WRONLY)
    os.dup2(devnull, 2)          # tqdm bars of the task processes
    cfg = beh['cfg']
    I, N, C = cfg['I'], cfg['N'], cfg['C']
    all_cpus = os.sched_getaffinity(0)
    if beh.get('affinity'):
        # a node shared with other jobs: the scheduler pins this job to a few CPUs only
        # (the machine still has all of them)
        os.sched_setaffinity(0, set(sorted(os.sched_getaffinity(0))[:beh['affinity']]))
    d = os.path.join(workroot, f'b{idx}')
    ind = os.path.join(d, 'inputs')
    os.makedirs(ind, exist_ok=True)
    # run-parallel numbers the inputs in the order glob() lists them (directory
    # order, not sorted): input i of the model is the i-th file of that listing.
    # The files are named so that the directory order IS the sorted order - an
    # implementation that sorts its listing numbers them the same way.
    # ASSUMPTION recorded in DESIGN.md: every node sees the same listing order
    from glob import glob
    for salt in range(400):
        # (the names generate-input gives its files contain dots: bias ratio 0.5)
        names = [f'input_{i:02d}_s{salt}_bias_0.5.json' for i in range(I)]
        for nm in names:
            open(os.path.join(ind, nm), 'w').close()
        listed = [os.path.basename(p_) for p_ in glob(f'{ind}/*.json')]
        if listed == sorted(listed):
            break
        for nm in names:
            os.remove(os.path.join(ind, nm))
    else:
        raise common.MachineryError('no set of input names whose directory order is the sorted order')
    for i, nm in enumerate(names):
        with open(os.path.join(ind, nm), 'w') as f:
            json.dump(input_spec(i), f)
    listed = [os.path.basename(p_) for p_ in glob(f'{ind}/*.json')]
    if listed != names:
        raise common.MachineryError('directory order changed while the inputs were written')
    name_no = list(range(I))
    pos = {k_: k_ for k_ in range(I)}
    res = os.path.join(d, 'results')
    ntasks = N * C
    digits = len(str(ntasks))
    real_mp = cli.multiprocessing
    steps = []
    try:
        for st in beh['steps']:
            ev = {'a': st['a']}
            if st['a'] == 'extend':
                ev['trials'] = st['trials']
                steps.append(ev)
                continue
            if st['a'] == 'grow':
                ev['input'] = st['input']
                k_ = name_no[st['input']]
                with open(os.path.join(ind, names[k_]), 'w') as f:
                    json.dump(input_spec(k_, grown=True), f)
                steps.append(ev)
                continue
            ev.update(job=st['job'], trials=st['trials'], delete=bool(st.get('delete', False)),
                      via=st.get('via', 'direct'))
            if st['a'] == 'partial':
                ev.update(task=st['task'], stop=st['stop'])
                cli.multiprocessing = _StopEarly(
                    real_mp, f"results_{str(st['task'] + 1).zfill(digits)}", st['stop'])
            raised = ''
            os.makedirs(res, exist_ok=True)
            bf = read_files(res, ntasks, I, pos)
            before, beforeb = bf[0], bf[3]
            try:
                with contextlib.redirect_stdout(io.StringIO()):
                    if ev['via'] == 'direct' or st['a'] == 'partial':
                        cli.run_parallel.callback(
                            data_dir=d, trials=st['trials'], n_nodes=N, job_idx=st['job'],
                            n_cores=C, delete_existing=ev['delete'])
                    else:
                        launch_through_script(cli, d, ev['via'], N, C, st['trials'], st['job'], ev['delete'],
                                              cores_omitted=bool(beh.get('cores_omitted')))
            except BaseException as ex:      # noqa
                raised = f'{type(ex).__name__}: {ex}'[:160]
            finally:
                cli.multiprocessing = real_mp
            os.makedirs(res, exist_ok=True)
            files, totals, extra, filesb, totalsb = read_files(res, ntasks, I, pos)
            an_a, an_b = read_analysis(res, I, pos)
            prog = []
            for t_ in range(ntasks):
                pf = os.path.join(d, 'logs', 'progress', f'progress_{str(t_ + 1).zfill(digits)}.txt')
                try:
                    with open(pf) as f:
                        k_, n_ = f.read().split('/')
                    prog.append([int(k_), int(n_)])
                except Exception:
                    prog.append([-1, -1])
            ev['obs'] = {'raised': raised, 'files': files, 'totals': totals, 'before': before, 'progress': prog,
                         'filesb': filesb, 'totalsb': totalsb, 'beforeb': beforeb,
                         'analysis': an_a, 'analysisb': an_b, 'extra_files': extra}
            steps.append(ev)
        return {'cfg': cfg, 'T0': beh['T0'], 'steps': steps}
    finally:
        cli.multiprocessing = real_mp
        os.sched_setaffinity(0, all_cpus)
        shutil.rmtree(d, ignore_errors=True)


def _sim_one(args):
    num, seed, cfgname = args
    r = common.run_tlc('Pipeline', cfg=cfgname, workers=1,
                       simulate=f'num={num}', extra=['-depth', '50', '-seed', str(seed)],
                       timeout=1200, heap='2g')
    common.require_ok(r, 'Pipeline simulation')
    if r['violation']:
        raise common.MachineryError('Pipeline.tla violates an invariant in simulation:\n'
                                    + r['stdout'][-1500:])
    out = set()
    for v in common.printed(r['stdout']):
        if v[0] == 'BEHAVIOUR':
            out.add(v[1].replace('\\"', '"'))
    return sorted(out), r['generated']


def behaviours(num, seed, par=8, cfgname='Pipeline_sim.cfg'):
    import concurrent.futures
    out = set()
    gen = 0
    with concurrent.futures.ThreadPoolExecutor(max_workers=par) as ex:
        for behs, g in ex.map(_sim_one, [(max(1, num // par), seed * 100 + j, cfgname)
                                         for j in range(par)]):
            out.update(behs)
            gen += g
    return [json.loads(b) for b in sorted(out)], gen


def norm(beh):
    """TLC's ToJson writes functions over 0..n as objects/arrays; bring the
    behaviour into plain Python form."""
    cfg = beh['cfg']
    steps = beh['steps']
    if isinstance(steps, dict):
        steps = [steps[k] for k in sorted(steps, key=int)]
    return {'cfg': cfg, 'T0': steps[0]['trials'], 'steps': steps[1:]}


def run_all(behs, procs=6):
    import concurrent.futures
    import multiprocessing as mp
    work = common.scratch_dir('pipeline')
    try:
        jobs = [(j, b, work) for j, b in enumerate(behs)]
        with concurrent.futures.ProcessPoolExecutor(
                max_workers=procs, mp_context=mp.get_context('fork')) as ex:
            return list(ex.map(replay, jobs, chunksize=1))
    finally:
        common.cleanup(work)


def validate(recs):
    """Pipeline_Trace.tla on all records: ({id: clauses}, {id: notes}, stats)."""
    import concurrent.futures
    work = common.scratch_dir('pipeline-trace')
    nsh = max(1, min(8, len(recs)))
    parts = [recs[i::nsh] for i in range(nsh)]

    def one(k):
        d = os.path.join(work, f's{k}')
        os.makedirs(d, exist_ok=True)
        f = os.path.join(d, 'data.json')
        with open(f, 'w') as fh:
            json.dump([common.sanitize({a: b for a, b in r.items() if not a.startswith('_')})
                       for r in parts[k]], fh)
        return k, common.run_tlc('Pipeline_Trace', env={'VERIF_DATA': f}, workers=1,
                                 workdir=d, timeout=1800)

    rej, notes = {}, {}
    gen = dis = 0
    with concurrent.futures.ThreadPoolExecutor(max_workers=8) as ex:
        for k, r in ex.map(one, range(len(parts))):
            common.require_ok(r, 'Pipeline_Trace')
            if r['violation']:
                raise common.MachineryError('Pipeline_Trace: an invariant of the spec itself '
                                            'is violated:\n' + r['stdout'][-1500:])
            pr = common.printed(r['stdout'])
            want = sum(len(t['steps']) for t in parts[k])
            got = [x for x in pr if x[0] == 'CHECKED']
            if not got or got[-1][1] != want:
                raise common.MachineryError(
                    f'Pipeline_Trace consumed {got[-1][1] if got else None} of {want} events\n'
                    + r['stdout'][-1500:])
            for x in pr:
                if x[0] == 'REJECT':
                    rej.setdefault(x[1], set()).update(x[2])
                elif x[0] == 'NOTE':
                    notes.setdefault(x[1], set()).update(x[2])
            gen += r['generated']
            dis += r['distinct']
    common.cleanup(work)
    return rej, notes, {'generated': gen, 'distinct': dis}
