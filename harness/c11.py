"""C11 - Monte-Carlo trials are self-consistent, reproducible and calibrated.

code -> spec (Simulation_Trace.tla, reusing Simulation.tla's Run action):
(1) run_once is wrapped to keep the full shot; DirectSimulation.run(k) is
    called in random interleavings of k in {0,1,2,5}; TLC judges every trial
    (syndrome / effective error / codespace / success) and the accounting after
    every call, and get_results' estimator and standard error;
(2) reproducibility: the same seed in two fresh processes, and the same seed
    with a different chunking of run(k), must give identical logs;
(3) calibration, exact: on codes with n = 4 (quick) / 5 (thorough) the failure
    table of all 4^n errors is recorded (fresh decoder each), and the real
    simulation is driven by the stratified variate grid of Noise.tla
    (Den^n trials, arbitrary run(k) chunks); n_fail must equal the exact
    failure probability summed by TLC.
"""
import json
import os
import subprocess
import sys
import time
import concurrent.futures

import numpy as np

from . import codes, common, decoders as D
from panqec.config import DECODERS
from panqec.error_models import PauliErrorModel
import panqec.simulation._direct_simulation as DS
from panqec.simulation import DirectSimulation

G = 1_000_000

PAIRS = [
    ('MatchingDecoder', 'Toric2DCode', (3, 3), {}),
    ('MatchingDecoder', 'RotatedPlanar2DCode', (3, 3), {}),
    ('BeliefPropagationOSDDecoder', 'Planar2DCode', (2, 3), {'max_bp_iter': 10, 'osd_order': 0}),
    ('BeliefPropagationOSDDecoder', 'Toric3DCode', (2, 2, 2), {'max_bp_iter': 10, 'osd_order': 0}),
    ('UnionFindDecoder', 'Toric2DCode', (3, 4), {}),
    ('SweepMatchDecoder', 'Toric3DCode', (3, 3, 3), {}),
    ('RotatedSweepMatchDecoder', 'RotatedPlanar3DCode', (3, 3, 2), {}),
    ('XCubeMatchingDecoder', 'XCubeCode', (2, 2, 2), {}),
    ('BeliefPropagationOSDDecoder', 'Color488Code', (2, 2), {'max_bp_iter': 10, 'osd_order': 0}),
]
NOISE = [('depol', None), ('Zbias', None), ('Zbias', 'first')]


def shot_record(code, shot):
    n = code.n
    eff = np.asarray(shot['effective_error']).ravel()
    return {
        'error': codes.bsf_to_op(shot['error'], n),
        'correction': codes.bsf_to_op(np.asarray(shot['correction']).ravel() % 2, n),
        'syndrome': [int(i) for i in np.nonzero(np.asarray(shot['syndrome']).ravel())[0]],
        'effective': [int(i) for i in np.nonzero(eff)[0]],
        'codespace': bool(shot['codespace']), 'success': bool(shot['success']),
    }


def sim_log(spec):
    """Run one DirectSimulation according to `spec`; return the event log."""
    dec_name, cname, size, dkw, noise, ndef, p, seed, chunks = spec
    code = codes.build(cname, tuple(size))
    vs = codes.deformation_variants(cname)
    nd, ndkw = (vs[1] if (ndef and len(vs) > 1) else (None, None))
    em = D.make_noise(noise, nd, ndkw)
    dec = DECODERS[dec_name](code, em, p, **dkw)
    sim = DirectSimulation(code, em, dec, p, rng=np.random.default_rng(seed), verbose=False)
    shots = []
    real = DS.run_once

    def spy(*a, **kw):
        s = real(*a, **kw)
        shots.append(s)
        return s
    events = []
    DS.run_once = spy
    try:
        for k in chunks:
            del shots[:]
            interrupted = False
            if isinstance(k, list):
                # ["interrupt", k, j]: run(k), KeyboardInterrupt raised inside
                # the decoder at the j-th trial of this call
                _, k, j = k
                real_decode = dec.decode
                count = [0]

                def bomb(s, **kw):
                    count[0] += 1
                    if count[0] == j:
                        raise KeyboardInterrupt('injected')
                    return real_decode(s, **kw)
                dec.decode = bomb
                try:
                    sim.run(k)
                except KeyboardInterrupt:
                    interrupted = True
                finally:
                    del dec.decode
            else:
                sim.run(k)
            r = sim._results
            events.append({'ev': 'run', 'requested': int(k), 'interrupted': interrupted,
                           'trials': [shot_record(code, s) for s in shots],
                           'lens': [len(r['effective_error']), len(r['success']),
                                    len(r['codespace']), int(r['n_runs'])]})
            if sim.n_results > 0:
                res = sim.get_results()
                nr = int(res['n_runs'])
                events.append({'ev': 'results', 'n_fail': int(res['n_fail']),
                               'n_runs': nr, 'n_success': int(res['n_success']),
                               'p_est_k': int(round(float(res['p_est']) * G)),
                               'p_se2n1_k': int(round(float(res['p_se']) ** 2 * (nr + 1) * G))})
    finally:
        DS.run_once = real
    return {'kind': 'sim', 'code': codes.project(code), 'events': events}


def child_main():
    spec = json.loads(sys.stdin.read())
    json.dump(sim_log(spec), sys.stdout)


def fresh_process_log(spec, hashseed='0'):
    env = dict(os.environ, PYTHONHASHSEED=hashseed)
    p = subprocess.run([common.PY, '-W', 'ignore', '-c',
                        'from harness.c11 import child_main; child_main()'],
                       input=json.dumps(spec), text=True, env=env, cwd=common.VERIF,
                       stdout=subprocess.PIPE, stderr=subprocess.PIPE)
    if p.returncode != 0:
        return {'raised': p.stderr[-400:]}
    return json.loads(p.stdout[p.stdout.index('{"kind"'):])


# ---- calibration -----------------------------------------------------------

class Stratified:
    """random() walks through the full product grid of midpoint variates:
    trial t, qubit q gets the midpoint of cell digit_q(t) (base den)."""

    def __init__(self, n, den):
        self.n, self.den, self.calls = n, den, 0

    def _next(self):
        t, q = divmod(self.calls, self.n)
        self.calls += 1
        j = (t // self.den ** q) % self.den
        return (2 * j + 1) / (2 * self.den)

    def random(self, size=None):
        if size is None:
            return self._next()
        k = int(np.prod(size))
        return np.array([self._next() for _ in range(k)]).reshape(size)


class _Model:
    def __init__(self):
        self.e = None

    def generate(self, code, error_rate, rng=None):
        return self.e.copy()


CAL_CHANS = [(5, 1, 1, 1), (4, 0, 1, 3), (6, 2, 0, 0), (3, 1, 2, 2)]


@common.safe
def _dense(a):
    return a.toarray() if hasattr(a, 'toarray') else a


def calibration(item):
    dec_name, cname, size, dkw, chan, ndef, chunk_seed = item
    den = 8
    dkw = dict(dkw)
    # a decoder may be built with a prior that is not the simulation's error
    # rate (one fixed-prior decoder reused over a sweep): the simulation still
    # samples at ITS rate, and the exact failure probability is that of
    # (code, noise at the simulation's rate, this decoder)
    dec_rate = dkw.pop('_decoder_rate', None)
    via_function = dkw.pop('_via_function', False)
    code = codes.build(cname, tuple(size))
    n = code.n
    vs = codes.deformation_variants(cname)
    nd, ndkw = (vs[1] if (ndef and len(vs) > 1) else (None, {}))
    pi_, x, y, z = chan
    pn = x + y + z
    em = PauliErrorModel(x / pn, y / pn, z / pn, deformation_name=nd, deformation_kwargs=dict(ndkw or {}))
    p = pn / den
    if nd is None:
        Dt = [['X', 'Y', 'Z']] * n
    else:
        Dt = []
        for q in range(n):
            d = code.get_deformation(tuple(code.qubit_coordinates[q]), nd, **(ndkw or {}))
            Dt.append([d['X'], d['Y'], d['Z']])
    # the noise model object has already served OTHER codes with the same
    # number of qubits (as it does when one specification sweeps several codes)
    for oname, osize in (('RotatedPlanar2DCode', (2, 2)), ('Planar3DCode', (1, 2, 2)),
                         ('RotatedToric3DCode', (2, 2, 1)), ('Planar2DCode', (2, 2)),
                         ('RotatedPlanar2DCode', (1, 5)), ('RotatedPlanar2DCode', (5, 1))):
        other = codes.build(oname, osize)
        if other.n == n and (oname, tuple(osize)) != (cname, tuple(size)):
            em.probability_distribution(other, p)
            em.generate(other, p, rng=np.random.default_rng(0))
    # failure table: outcome of a trial as a function of the error alone
    LX = np.asarray(_dense(code.logicals_x)).astype(int).reshape(-1, 2 * n)
    LZ = np.asarray(_dense(code.logicals_z)).astype(int).reshape(-1, 2 * n)
    succ = []
    for t in range(4 ** n):
        e = np.zeros(2 * n, dtype=np.uint8)
        for q in range(n):
            d = (t // 4 ** q) % 4
            e[q] = d in (1, 2)
            e[n + q] = d in (2, 3)
        # decided here from the decoder's own answer (not through run_once, which
        # is part of what is being calibrated): the trial succeeds iff error +
        # correction has no syndrome and commutes with every logical operator
        dec = DECODERS[dec_name](code, em, p if dec_rate is None else dec_rate, **dkw)
        corr = np.asarray(_dense(dec.decode(code.measure_syndrome(e)))).ravel() % 2
        tot = (e.astype(int) + corr.astype(int)) % 2
        ok = not np.any(np.asarray(_dense(code.measure_syndrome(tot))).ravel() % 2)
        if ok:
            for L in (LX, LZ):
                if np.any((L[:, :n] @ tot[n:] + L[:, n:] @ tot[:n]) % 2):
                    ok = False
        succ.append(int(ok))
    # the real simulation on the stratified grid, in arbitrary chunks
    dec = DECODERS[dec_name](code, em, p if dec_rate is None else dec_rate, **dkw)
    total = den ** n
    if via_function:
        # the free function calculate_logical_error_rate (what SplittingSimulation
        # uses for its first level): it draws its own generator per trial, so the
        # stratified grid is handed out through np.random.default_rng
        from panqec.simulation import calculate_logical_error_rate
        grid = Stratified(n, den)
        real_default_rng = np.random.default_rng
        np.random.default_rng = lambda *a, **k: grid
        try:
            rate_ = calculate_logical_error_rate(code, em, dec, p, total)
        finally:
            np.random.default_rng = real_default_rng
        res = {'n_fail': int(round(float(rate_) * total)), 'n_runs': total}
        if abs(float(rate_) * total - res['n_fail']) > 1e-6:
            res['n_fail'] = -1
    else:
        sim = DirectSimulation(code, em, dec, p, rng=Stratified(n, den), verbose=False)
        rng = np.random.default_rng(chunk_seed)
        done = 0
        while done < total:
            k = int(min(total - done, rng.integers(1, 700)))
            sim.run(k)
            done += k
        res = sim.get_results()
    return {'kind': 'calibration', 'n': int(n), 'chan': list(chan), 'D': Dt, 'succ': succ,
            'n_fail': int(res['n_fail']), 'n_runs': int(res['n_runs']),
            'events': [], 'code': {'n': 0, 'k': 0, 'stabs': [], 'lx': [], 'lz': []},
            '_label': f'{dec_name}@{cname}{tuple(size)} chan={chan} noise_def={nd}'
                      + (f' decoder built for p={dec_rate}' if dec_rate is not None else '')
                      + (' via calculate_logical_error_rate' if via_function else ''),
            '_cost': 4 ** n * n}


def eval_all(recs):
    work = common.scratch_dir('c11')
    order = sorted(recs, key=lambda r: -r.get('_cost', 1))
    nsh = min(14, len(order))
    parts = [order[i::nsh] for i in range(nsh)]

    def one(idx):
        d = os.path.join(work, f's{idx}')
        os.makedirs(d, exist_ok=True)
        f = os.path.join(d, 'data.json')
        with open(f, 'w') as fh:
            json.dump([common.sanitize({k: v for k, v in r.items() if not k.startswith('_')})
                       for r in parts[idx]], fh)
        return idx, common.run_tlc('Simulation_Trace', env={'VERIF_DATA': f}, workers=1,
                                   workdir=d, timeout=3000, heap='4g')
    rej = {}
    gen = dis = 0
    with concurrent.futures.ThreadPoolExecutor(max_workers=16) as ex:
        for idx, r in ex.map(one, range(len(parts))):
            common.require_ok(r, 'Simulation_Trace')
            if r['violation']:
                raise common.MachineryError('Simulation_Trace: lists not aligned in the '
                                            'SPEC after Run (spec bug):\n' + r['stdout'][-1200:])
            pr = common.printed(r['stdout'])
            want = sum(len(t['events']) + 1 for t in parts[idx])
            got = [x for x in pr if x[0] == 'CHECKED']
            if not got or got[-1][1] != want:
                raise common.MachineryError(f'Simulation_Trace judged {got[-1][1] if got else None}'
                                            f' of {want} states\n' + r['stdout'][-1200:])
            for x in pr:
                if x[0] == 'REJECT':
                    rej.setdefault(x[1], [])
                    rej[x[1]] += x[2]
            gen += r['generated']
            dis += r['distinct']
    common.cleanup(work)
    return rej, {'generated': gen, 'distinct': dis}


@common.safe
def sim_job(spec):
    r = sim_log(spec)
    r['_label'] = f'{spec[0]}@{spec[1]}{tuple(spec[2])}/{spec[4]}{"+def" if spec[5] else ""}/p={spec[6]}/seed={spec[7]}'
    r['_cost'] = sum(len(e.get('trials', [])) for e in r['events']) * r['code']['n']
    return r


def run(tier):
    t0 = time.time()
    v = common.Verdict('C11')
    rng = np.random.default_rng(common.seed() + 1111)
    specs = []
    pairs = PAIRS if tier != 'quick' else PAIRS[:7]
    for (dn, cn, size, dkw) in pairs:
        for (noise, ndef) in NOISE:
            for p in ([0.08] if tier == 'quick' else [0.03, 0.1, 0.3]):
                chunks = [int(x) for x in rng.choice([0, 1, 2, 5], size=6 if tier == 'quick' else 12)]
                # one call of the history is cut short by an interrupt
                pos = int(rng.integers(1, len(chunks)))
                chunks.insert(pos, ['interrupt', 5, int(rng.integers(2, 5))])
                specs.append([dn, cn, list(size), dkw, noise, ndef, p,
                              int(rng.integers(1 << 30)), chunks])
    recs = common.pmap(sim_job, specs, procs=15)
    recs = common.split_raised('C11', v, recs)
    n_sim = len(recs)
    # reproducibility: fresh processes, different hash seeds, different chunking
    # (a plain stride aliased with the period of the noise loop: 7, 11 are coprime to it)
    n_rep = min(len(specs), 7 if tier == 'quick' else 21)
    rep_specs = [specs[(j * (7 if len(specs) % 7 else 11)) % len(specs)] for j in range(n_rep)]
    rep_specs = [sp for k, sp in enumerate(rep_specs) if sp not in rep_specs[:k]]
    with concurrent.futures.ThreadPoolExecutor(max_workers=12) as ex:
        futs = []
        for sp in rep_specs:
            total = sum(c for c in sp[8] if not isinstance(c, list))
            sp = sp[:8] + [[c for c in sp[8] if not isinstance(c, list)]]
            alt = sp[:8] + [[total]]                      # one big chunk
            futs.append((sp, ex.submit(fresh_process_log, sp, '0'),
                         ex.submit(fresh_process_log, sp, '12345'),
                         ex.submit(fresh_process_log, alt, '0')))
        for sp, fa, fb, fc in futs:
            a, b, c = fa.result(), fb.result(), fc.result()
            lab = f'{sp[0]}@{sp[1]}{tuple(sp[2])}/seed={sp[7]}'

            def trials(log):
                return [t for e in log.get('events', []) if e['ev'] == 'run' for t in e['trials']]
            recs.append({'kind': 'same', 'a': a, 'b': b, 'events': [],
                         'code': {'n': 0, 'k': 0, 'stabs': [], 'lx': [], 'lz': []},
                         '_label': lab + ' two fresh processes', '_cost': 50})
            recs.append({'kind': 'same', 'a': trials(a), 'b': trials(c), 'events': [],
                         'code': {'n': 0, 'k': 0, 'stabs': [], 'lx': [], 'lz': []},
                         '_label': lab + ' run(k) chunking', '_cost': 50})
    n_same = len(recs) - n_sim
    # calibration
    cal = []
    cal_subjects = [('MatchingDecoder', 'RotatedPlanar2DCode', (2, 2), {}),
                    ('BeliefPropagationOSDDecoder', 'RotatedPlanar2DCode', (2, 2), {'max_bp_iter': 8, 'osd_order': 0}),
                    ('BeliefPropagationOSDDecoder', 'RotatedToric3DCode', (2, 2, 1), {'max_bp_iter': 8, 'osd_order': 0}),
                    ('BeliefPropagationOSDDecoder', 'Planar3DCode', (1, 2, 2), {'max_bp_iter': 8, 'osd_order': 0}),
                    # decoders that read AND rewrite channel tables while decoding
                    ('BeliefPropagationOSDDecoder', 'RotatedPlanar2DCode', (2, 2),
                     {'max_bp_iter': 8, 'osd_order': 0, 'channel_update': True}),
                    ('MemoryBeliefPropagationDecoder', 'RotatedPlanar2DCode', (2, 2), {'max_bp_iter': 5}),
                    # decoders built for another rate than the one simulated
                    ('MatchingDecoder', 'RotatedPlanar2DCode', (2, 2), {'_decoder_rate': 0.3}),
                    ('BeliefPropagationOSDDecoder', 'RotatedPlanar2DCode', (2, 2),
                     {'max_bp_iter': 8, 'osd_order': 0, '_decoder_rate': 0.05})]
    if tier != 'quick':
        cal_subjects += [('MatchingDecoder', 'Planar2DCode', (2, 2), {}),
                         ('BeliefPropagationOSDDecoder', 'Planar2DCode', (2, 2), {'max_bp_iter': 8, 'osd_order': 0})]
    for k, (dn, cn, size, dkw) in enumerate(cal_subjects):
        chans = CAL_CHANS if tier != 'quick' else [CAL_CHANS[k % 4], CAL_CHANS[(k + 1) % 4]]
        for chan in chans:
            for ndef in ([False, True] if codes.deformation_variants(cn)[1:] else [False]):
                cal.append((dn, cn, size, dkw, chan, ndef, common.seed() + k))
    # flip probability above 1/2 (negative matching weights): the decoder's answer
    # to the trivial syndrome is a logical operator on these odd thin lattices
    for cn, size in (('Planar2DCode', (3, 1)), ('Planar2DCode', (1, 3))):
        for chan in ((1, 7, 0, 0), (2, 0, 0, 6), (1, 3, 2, 2)):
            cal.append(('MatchingDecoder', cn, size, {}, chan, False, common.seed() + 99))
    # decoders that may leave the code space (matching restricted to one error type),
    # through DirectSimulation and through the free function
    for chan in ((4, 0, 1, 3), (3, 1, 2, 2)):
        for via in (False, True):
            cal.append(('MatchingDecoder', 'RotatedPlanar2DCode', (2, 2),
                        {'error_type': 'X', '_via_function': via}, chan, False, common.seed() + 77))
    cal.append(('BeliefPropagationOSDDecoder', 'RotatedPlanar2DCode', (2, 2),
                {'max_bp_iter': 8, 'osd_order': 0, '_via_function': True}, (5, 1, 1, 1), False, common.seed() + 78))
    crecs = common.pmap(calibration, cal, procs=15)
    recs += common.split_raised('C11', v, crecs)
    for j, r in enumerate(recs):
        r['id'] = j
    rej, st = eval_all(recs)
    for r in recs:
        if r['id'] in rej:
            cl = sorted({c.split('@')[0] for c in rej[r['id']]})
            v.reject(f"C11:{r['kind']}:" + ','.join(cl) + ':' + r['_label'].split('/')[0],
                     {'case': r['_label'], 'failed': sorted(set(rej[r['id']]))[:8]})
    def _corrupt(r):
        if r['kind'] != 'sim' or r['id'] in rej:
            return None
        for e in r['events']:
            if e['ev'] == 'run' and e['trials']:
                e['trials'][0]['success'] = not e['trials'][0]['success']
                return r
        return None
    common.binding_selftest('c11', 'Simulation_Trace', recs, _corrupt, evaluator=eval_all)
    rc = v.finish()
    n_tr = sum(len(e.get('trials', [])) for r in recs for e in r.get('events', []))
    n_cal = sum(r.get('n_runs', 0) for r in recs if r['kind'] == 'calibration')
    common.write_evidence(
        'C11', tier, 'model_checking',
        {
            'states': st['distinct'], 'transitions': st['generated'],
            'traces_validated_against_impl': len(recs),
            'samples': [{'case': r['_label'], 'kind': r['kind'],
                         'events': [(e['ev'], e.get('requested')) for e in r.get('events', [])][:6],
                         'n_fail': r.get('n_fail'), 'n_runs': r.get('n_runs')}
                        for r in (recs[:2] + recs[n_sim:n_sim + 1] + recs[-2:])],
            'evaluations': n_tr + n_cal,
            'distinct_nontrivial': n_tr + len([r for r in recs if r['kind'] == 'calibration']),
            'rule': 'sim: (code, decoder, noise direction/deformation, rate, '
                    'seed) x random interleavings of run(k), k in {0,1,2,5}; '
                    'same: identical specs in fresh processes (two hash '
                    'seeds) and with one big chunk; calibration: all 4^n '
                    'errors + 8^n stratified trials; non-trivial = trial with '
                    'a generated error / calibration record',
            'simulations': n_sim, 'trials_judged': n_tr,
            'reproducibility_pairs': n_same,
            'calibration_records': len([r for r in recs if r['kind'] == 'calibration']),
            'stratified_trials': n_cal, 'exhaustive': False,
        },
        time.time() - t0, len(v.violations),
        assumptions=['calibration assumes the decoder is a pure function of '
                     'the syndrome (C06) so that the failure table recorded '
                     'with fresh decoders describes the reused one',
                     'p_est and p_se are compared at 2e-6'])
    print(f'C11 {tier}: {n_sim} simulations / {n_tr} trials, {n_same} reproducibility pairs, '
          f'{len(crecs)} calibrations / {n_cal} stratified trials, {len(rej)} rejected, '
          f'{time.time()-t0:.1f}s')
    return rc


def main():
    tier = sys.argv[1] if len(sys.argv) > 1 else 'quick'
    common.main_wrapper(lambda: run(tier))


if __name__ == '__main__':
    main()
