"""Union-find clustering invariants (beyond the listed properties; part of the
C05 check): the cluster forest is observed from outside every time the
algorithm chooses what to grow next, and UnionFind_Trace.tla judges every
snapshot and every step."""
import concurrent.futures
import json
import os

import numpy as np

from . import common
from panqec.codes import Toric2DCode
from panqec.error_models import PauliErrorModel
from panqec.decoders.union_find import uf_support as UF


def root_of(parents, v):
    """Non-mutating root lookup (no path compression: observing must not
    change the state)."""
    p = parents[v]
    if p == -1:
        return -1
    seen = 0
    while v != p:
        v, p = p, parents[p]
        seen += 1
        if seen > len(parents):
            return -2          # a cycle
    return v


def observe_decode(H, syndrome):
    support = UF.Support(np.array(syndrome, copy=True), H)
    snaps = []
    real = UF.Support._smallest_invalid_cluster

    def spy(clts):
        sml, inv = real(clts)
        parents = support._s_parents
        roots = {int(c.get_root()): c for c in clts}
        members = {r: [] for r in roots}
        for s in range(len(parents)):
            r = root_of(parents, s)
            if r in members:
                members[r].append(int(s))
        snaps.append({'clusters': [{'root': r, 'odd': bool(c.is_odd()), 'size': int(c.get_size()),
                                    'members': members[r]} for r, c in sorted(roots.items())],
                      'chosen': int(sml.get_root()) if sml is not None else -1})
        return sml, inv

    UF.Support._smallest_invalid_cluster = staticmethod(spy)
    flat = []
    real_update = UF.Support._update_parents

    def spy_update(self_, parents, roots):
        out = real_update(self_, parents, roots)
        flat.append({'parents': [int(x) for x in parents], 'roots': sorted(int(r) for r in roots)})
        return out
    UF.Support._update_parents = spy_update
    raised, corr = '', []
    try:
        with common.time_limit(30):
            c = support.decode()
        corr = [int(q) for q in np.nonzero(np.asarray(c).ravel())[0]]
    except (Exception, TimeoutError) as ex:
        raised = f'{type(ex).__name__}: {ex}'[:100]
    finally:
        UF.Support._smallest_invalid_cluster = staticmethod(real)
        UF.Support._update_parents = real_update
    return snaps, corr, raised, flat


def job(item):
    size, p, count, seed = item
    code = Toric2DCode(*size)
    em = PauliErrorModel(1 / 3, 1 / 3, 1 / 3)
    rng = np.random.default_rng(seed)
    recs = []
    for sector, H, idx in (('X', code.Hx, np.asarray(code.x_indices)), ('Z', code.Hz, np.asarray(code.z_indices))):
        coq = [[int(s) for s in H.getcol(q).nonzero()[0]] for q in range(H.shape[1])]
        for _ in range(count):
            e = em.generate(code, p, rng=rng)
            syn = np.asarray(code.measure_syndrome(e)).ravel()[idx].astype(np.uint8)
            snaps, corr, raised, flat = observe_decode(H, syn)
            recs.append({'m': int(H.shape[0]), 'defects': [int(i) for i in np.nonzero(syn)[0]],
                         'checks_of_qubit': coq, 'snaps': snaps, 'correction': corr, 'raised': raised, 'flat': flat,
                         '_label': f'Toric2DCode{tuple(size)} sector {sector} p={p}',
                         '_size': list(size), '_cost': len(snaps) * H.shape[0]})
    return recs


def evaluate(recs):
    work = common.scratch_dir('uf')
    nsh = min(12, len(recs))
    order = sorted(recs, key=lambda r: -r['_cost'])
    parts = [order[i::nsh] for i in range(nsh)]

    def one(idx):
        d = os.path.join(work, f's{idx}')
        os.makedirs(d, exist_ok=True)
        f = os.path.join(d, 'data.json')
        with open(f, 'w') as fh:
            json.dump([common.sanitize({k: v for k, v in r.items() if not k.startswith('_')})
                       for r in parts[idx]], fh)
        return idx, common.run_tlc('UnionFind_Trace', env={'VERIF_DATA': f}, workers=1,
                                   workdir=d, timeout=3000, heap='3g')
    rej, gen, dis = {}, 0, 0
    with concurrent.futures.ThreadPoolExecutor(max_workers=12) as ex:
        for idx, r in ex.map(one, range(len(parts))):
            common.require_ok(r, 'UnionFind_Trace')
            pr = common.printed(r['stdout'])
            want = sum(len(t['snaps']) for t in parts[idx])
            got = [x for x in pr if x[0] == 'CHECKED']
            if not got or got[-1][1] != want:
                raise common.MachineryError(f'UnionFind_Trace judged {got[-1][1] if got else None} of {want}')
            for x in pr:
                if x[0] == 'REJECT':
                    rej.setdefault(x[1], [])
                    rej[x[1]] += x[2]
            gen += r['generated']
            dis += r['distinct']
    common.cleanup(work)
    return rej, {'generated': gen, 'distinct': dis}


def run(tier, seed):
    sizes = [((3, 3), 0.1), ((4, 5), 0.12), ((6, 6), 0.12), ((9, 9), 0.15)] + ([((8, 8), 0.12), ((5, 9), 0.15), ((10, 10), 0.15)] if tier != 'quick' else [])
    count = 25 if tier == 'quick' else 120
    jobs = [(s, p, count, seed + k) for k, (s, p) in enumerate(sizes)]
    recs = [r for rs in common.pmap(job, jobs, procs=8) for r in rs]
    for j, r in enumerate(recs):
        r['id'] = j
    rej, st = evaluate(recs)
    # binding: a forest left unflattened in an accepted record must be rejected
    import copy
    for r in recs:
        if r['id'] in rej or not r['flat']:
            continue
        f0 = r['flat'][0]
        outsiders = [x for x in range(len(f0['parents'])) if x not in f0['roots']]
        touched = [k for k, x in enumerate(f0['parents']) if x != -1]
        if not outsiders or not touched:
            continue
        c = copy.deepcopy(r)
        c['flat'][0]['parents'][touched[0]] = outsiders[0]
        crej, _ = evaluate([c])
        if not any(x.startswith('after_flattening') for x in crej.get(c['id'], [])):
            raise common.MachineryError('UnionFind_Trace accepted a forest that was not flattened')
        break
    return recs, rej, st
