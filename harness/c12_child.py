"""One process run of a real BatchSimulation with fault injection at the
control points named by Batch.tla.  Executed in a forked child of the harness
(so a planned Kill is a real process death: os._exit without flushing)."""
import gzip as _gzip
import json
import os

import numpy as np

# imported here (in the parent) so that forked children start instantly
import panqec.utils  # noqa
import panqec.simulation._direct_simulation  # noqa
import panqec.simulation._base_simulation  # noqa
from panqec.codes import Toric2DCode  # noqa
from panqec.error_models import PauliErrorModel  # noqa
from panqec.decoders import MatchingDecoder  # noqa
from panqec.simulation import BatchSimulation, DirectSimulation  # noqa

RATES = {'s1': 0.1, 's2': 0.2, 's3': 0.3, 'f': 0.45}
INDEX = {'s1': 1, 's2': 2, 's3': 3, 'f': 9}
NAME_OF_RATE = {v: k for k, v in RATES.items()}
TRIAL_PCS = ('ee', 'succ', 'cs', 'incr')


NOISE_KW = {'deformation_axis': 'x'}
FOREIGN_KINDS = ('rate', 'code', 'noise', 'decoder')


def name_of(rate, code_params, noise_kwargs, dec_params):
    """Which modelled simulation a (code, noise, decoder, rate) is: the
    foreign record differs from s1 in exactly one of the four."""
    cp = code_params if isinstance(code_params, dict) else {}
    if (rate == RATES['f'] or (cp.get('L_x'), cp.get('L_y')) != (2, 2)
            or (noise_kwargs or {}) != NOISE_KW or (dec_params or {}).get('error_type') is not None):
        return 'f'
    return NAME_OF_RATE.get(rate, '?')


def name_of_sim(sim):
    return name_of(sim.error_rate, sim.code.params, sim.error_model.params.get('deformation_kwargs'),
                   sim.decoder.params)


def name_of_inputs(inputs):
    return name_of(inputs['error_rate'], inputs['code']['parameters'],
                   inputs['error_model']['parameters'].get('deformation_kwargs'),
                   inputs['decoder']['parameters'])


_SHARED = {}


def build_sim(name, foreign_kind, compressed, shared_decoder=False):
    rate = RATES[name]
    code = Toric2DCode(2, 2)
    kw = dict(NOISE_KW)
    dkw = {}
    if name == 'f' and foreign_kind != 'rate':
        rate = RATES['s1']
        if foreign_kind == 'code':
            code = Toric2DCode(2, 3)
        elif foreign_kind == 'noise':
            kw = None                     # deformation kwargs omitted: stored as {}
        elif foreign_kind == 'decoder':
            dkw = {'error_type': 'X'}
    em = PauliErrorModel(1 / 3, 1 / 3, 1 / 3, deformation_name='XZZX', deformation_kwargs=kw)
    if shared_decoder and not dkw and (code.size == (2, 2)) and kw == NOISE_KW:
        # one fixed-prior decoder object serves every simulation of the batch
        dec = _SHARED.setdefault('dec', MatchingDecoder(code, em, RATES['s1']))
    else:
        dec = MatchingDecoder(code, em, rate, **dkw)
    return DirectSimulation(code, em, dec, rate, verbose=False, compress=compressed)


def trial_id(run_no, sim, k):
    return run_no * 10000 + INDEX[sim] * 100 + k


def untrial(i):
    inv = {v: k for k, v in INDEX.items()}
    return [i // 10000, inv[(i // 100) % 100], i % 100]


class Fault:
    def __init__(self, plan, out_path):
        self.kind = plan['kind']
        self.at = plan['at']
        self.n = plan['n']
        self.out = os.path.abspath(out_path)
        self.nsteps = 0
        self.nsaves = 0
        self.fired = False
        self.armed = 0          # micro-steps left in the current trial

    def fire(self):
        self.fired = True
        if self.kind == 'kill':
            os._exit(137)
        raise KeyboardInterrupt('injected')

    def trial_point(self):
        """Called before each trial micro-step."""
        pc = TRIAL_PCS[self.nsteps % 4]
        if (not self.fired and self.kind != 'none' and self.at == pc
                and self.n == self.nsteps):
            self.fire()

    def save_point(self, pc):
        if (not self.fired and self.kind != 'none' and self.at == pc
                and self.n == self.nsaves):
            self.fire()


class HookList(list):
    fault = None

    def append(self, x):
        f = HookList.fault
        if f is not None and f.armed > 0:
            f.trial_point()
            super().append(x)
            f.nsteps += 1
            f.armed -= 1
        else:
            super().append(x)


class HookDict(dict):
    fault = None

    def __setitem__(self, k, v):
        f = HookDict.fault
        if isinstance(v, list) and not isinstance(v, HookList):
            v = HookList(v)
        if k == 'n_runs' and f is not None and f.armed > 0:
            f.trial_point()
            super().__setitem__(k, v)
            f.nsteps += 1
            f.armed -= 1
        else:
            super().__setitem__(k, v)


class WriteHook:
    """File-like wrapper realising the save control points of Batch.tla on the
    stream of bytes/characters that reaches the file."""

    def __init__(self, real, fault, is_final):
        self.real = real
        self.fault = fault
        self.calls = 0
        self.is_final = is_final

    def write(self, data):
        if self.calls == 0:
            self.fault.save_point('write')     # truncated, nothing written
        elif self.calls == 1:
            self.fault.save_point('close')     # something, not everything
        self.calls += 1
        # no flush here: what reaches the disk before close() is whatever the
        # implementation's own buffering lets through (a process that dies
        # loses its unflushed buffers, exactly as the kill points assume)
        return self.real.write(data)

    def flush(self):
        self.real.flush()

    def close(self):
        if self.calls == 0:
            self.fault.save_point('write')
        if self.calls <= 1:
            self.fault.save_point('close')
        self.real.close()
        if self.is_final:
            self.fault.save_point('written')

    def __enter__(self):
        return self

    def __exit__(self, *a):
        if a[0] is None:
            self.close()
        else:
            self.real.close()
        return False


class _Gz(_gzip.GzipFile):
    def close(self):
        raw = self.fileobj
        hook = getattr(self, '_hook', None)
        super().close()
        if hook is not None:
            hook.close()


class Proxy:
    def __init__(self, target, **over):
        self.__dict__['_t'] = target
        self.__dict__['_o'] = over

    def __getattr__(self, k):
        if k in self._o:
            return self._o[k]
        return getattr(self._t, k)


def install(fault):
    import builtins
    import panqec.utils as U
    import panqec.simulation._direct_simulation as DS
    import panqec.simulation._base_simulation as BS

    HookList.fault = fault
    HookDict.fault = fault
    real_open = builtins.open

    def is_final(path):
        return os.path.abspath(path) == fault.out

    def hooked_open(file, mode='r', *a, **kw):
        if 'w' in mode:
            fault.nsaves += 1
            fault.save_point('open')
            return WriteHook(real_open(file, mode, *a, **kw), fault,
                             is_final(file))
        return real_open(file, mode, *a, **kw)

    def hooked_gzip_open(file, mode='rb', *a, **kw):
        if 'w' in mode:
            fault.nsaves += 1
            fault.save_point('open')
            raw = real_open(file, 'wb')
            hook = WriteHook(raw, fault, is_final(file))
            gz = _Gz(filename=os.path.basename(str(file)), mode='wb',
                     fileobj=hook)
            gz._hook = hook
            return gz
        return _gzip.open(file, mode, *a, **kw)

    def hooked_replace(src, dst, *a, **kw):
        if os.path.abspath(dst) == fault.out:
            fault.save_point('rename')
        os.replace(src, dst, *a, **kw)
        if os.path.abspath(dst) == fault.out:
            fault.save_point('written')

    def hooked_rename(src, dst, *a, **kw):
        if os.path.abspath(dst) == fault.out:
            fault.save_point('rename')
        os.rename(src, dst, *a, **kw)
        if os.path.abspath(dst) == fault.out:
            fault.save_point('written')

    U.open = hooked_open
    U.gzip = Proxy(_gzip, open=hooked_gzip_open)
    U.os = Proxy(os, replace=hooked_replace, rename=hooked_rename)
    try:
        import shutil
        U.shutil = Proxy(shutil, move=hooked_replace)
    except Exception:
        pass
    return DS, BS


def run_session(jobs):
    """Body of the forked child: a SESSION = the runs that happen in one
    process on one BatchSimulation object (the first starts fresh, the others
    call run() again on the same object).  After every run a report
    <report>.<k> is written (unless the process was killed)."""
    first = jobs[0]
    state = {'fault': Fault(first['plan'], first['out']), 'run_no': first['run_no']}
    DS, BS = install(state['fault'])
    sims = {}

    def stub_run_once(code, error_model, decoder, error_rate, rng=None):
        name = name_of(error_rate, code.params, error_model.params.get('deformation_kwargs'),
                       decoder.params)
        sim = sims[name]
        tid = trial_id(state['run_no'], name, sim.n_results + 1)
        state['fault'].armed = 4
        return {'error': None, 'syndrome': None, 'correction': None,
                'effective_error': np.array([tid]), 'success': tid,
                'codespace': tid}

    DS.run_once = stub_run_once
    import panqec.simulation._batch_simulation as BSIM
    BSIM.run_once = stub_run_once if hasattr(BSIM, 'run_once') else None

    # every simulation that enters a BatchSimulation gets observable result
    # containers, whichever way the batch is built
    orig_append = BatchSimulation.append

    def hooked_append(self, sim):
        hd = HookDict()
        for k, val in sim._results.items():
            hd[k] = val
        sim._results = hd
        sims[name_of_sim(sim)] = sim
        return orig_append(self, sim)
    BatchSimulation.append = hooked_append

    # control point "save" of Batch.tla: save_results has been entered, its try
    # block has not (an interrupt here is not caught by save_results)
    orig_save_results = BatchSimulation.save_results

    def hooked_save_results(self):
        state['fault'].save_point('save')
        return orig_save_results(self)
    BatchSimulation.save_results = hooked_save_results

    via_cli = bool(first.get('via_run_file')) and len(jobs) == 1 and first['savefreq'] == 1
    if via_cli:
        # the path `panqec run -i input.json -o results -t N` takes: the
        # specification is read from an input file and the batch is built by
        # read_input_json inside run_file
        from panqec.simulation import run_file
        from panqec.utils import identity
        spec_file = first['out'] + '.input.json'
        with open(spec_file, 'w') as fh:
            json.dump({'comments': '', 'ranges': {
                'label': 'c12', 'code': {'name': 'Toric2DCode', 'parameters': [{'L_x': 2, 'L_y': 2}]},
                'error_model': {'name': 'PauliErrorModel',
                                'parameters': [{'r_x': 1 / 3, 'r_y': 1 / 3, 'r_z': 1 / 3,
                                                'deformation_name': 'XZZX',
                                                'deformation_kwargs': dict(NOISE_KW)}]},
                'decoder': {'name': 'MatchingDecoder'},
                'error_rate': [RATES[nm] for nm in first['spec']]}}, fh)
        batch = None
    else:
        batch = BatchSimulation(first['out'], save_frequency=first['savefreq'],
                                update_frequency=1000, verbose=False)
        for name in first['spec']:
            batch.append(build_sim(name, first.get('foreign', 'rate'), first['compressed'],
                                   first.get('shared_decoder', False)))
    for k, job in enumerate(jobs):
        if k > 0:
            # a new run on the same object: new fault plan, counters restart
            f = state['fault']
            f.kind, f.at, f.n = job['plan']['kind'], job['plan']['at'], job['plan']['n']
            f.nsteps = f.nsaves = 0
            f.fired = False
            f.armed = 0
            state['run_no'] = job['run_no']
        fault = state['fault']
        if fault.kind == 'kill' and fault.at == 'load':
            os._exit(137)
        outcome = 'done'
        try:
            if via_cli:
                run_file(spec_file, first['out'], job['target'], progress=identity, verbose=False)
            else:
                batch.run(job['target'])
            if fault.fired:
                outcome = 'paused'
        except BaseException as ex:          # noqa: the run did not complete
            outcome = 'error:' + type(ex).__name__
        mem = {}
        for name, sim in sims.items():
            r = sim._results
            mem[name] = {
                'ee': [int(np.asarray(x).ravel()[0]) for x in r['effective_error']],
                'succ': [int(x) for x in r['success']],
                'cs': [int(x) for x in r['codespace']],
                'n': int(r['n_runs']),
            }
        with open(f"{first['report']}.{k}", 'w') as fh:
            json.dump({'outcome': outcome, 'mem': mem, 'fired': fault.fired,
                       'nsteps': fault.nsteps, 'nsaves': fault.nsaves,
                       'disk': project_disk(first['out'], first['compressed'])}, fh)
        if outcome.startswith('error'):
            break


def spawn(jobs):
    """Fork, run the session in the child, return (exit status, [report per
    run that ended inside the process])."""
    import sys
    import glob
    base = jobs[0]['report']
    for f in glob.glob(base + '.*'):
        os.remove(f)
    sys.stdout.flush()
    sys.stderr.flush()
    pid = os.fork()
    if pid == 0:
        code = 0
        try:
            devnull = os.open(os.devnull, os.O_WRONLY)
            os.dup2(devnull, 1)
            run_session(jobs)
        except BaseException:            # noqa
            import traceback
            with open(base + '.err', 'w') as f:
                traceback.print_exc(file=f)
            code = 3
        finally:
            os._exit(code)
    _, status = os.waitpid(pid, 0)
    rc = os.waitstatus_to_exitcode(status)
    reps = []
    for k in range(len(jobs)):
        f = f'{base}.{k}'
        if os.path.exists(f):
            with open(f) as fh:
                reps.append(json.load(fh))
    return rc, reps


def project_disk(path, compressed):
    """Abstract state of the results file (independent reader)."""
    if not os.path.exists(path):
        return {'kind': 'absent', 'data': {}}
    if os.path.getsize(path) == 0:
        return {'kind': 'empty', 'data': {}}
    try:
        if compressed:
            with _gzip.open(path, 'rb') as f:
                raw = f.read().decode('utf-8')
        else:
            with open(path) as f:
                raw = f.read()
        data = json.loads(raw)
    except Exception:
        return {'kind': 'torn', 'data': {}}
    out = {}
    for rec in data:
        name = name_of_inputs(rec['inputs'])
        r = rec['results']
        out[name] = {
            'ee': [int(np.asarray(x).ravel()[0]) for x in r['effective_error']],
            'succ': [int(x) for x in r['success']],
            'cs': [int(x) for x in r['codespace']],
            'n': int(r['n_runs']),
        }
    return {'kind': 'valid', 'data': out}
