"""C01 - every library code is a valid [[n,k]] stabilizer code.

code -> spec: every (class, supported size, deformation, axis) object is
exported and Pauli!ValidCode is evaluated on it by TLC (C01_Data.tla).
model: C01_Model.tla proves the same predicate for the native TLA+ lattice
families and is run first (design level)."""
import sys
import time

from . import codes, common


def domain(tier):
    if tier == 'quick':
        side2, side3, max_n = 6, 4, 200
    else:
        side2, side3, max_n = 8, 5, 420
    out = []
    for name in codes.CLASSES:
        ms = side2 if codes.dimension(name) == 2 else side3
        if name in ('RhombicToricCode', 'Color3DCode', 'HollowRhombicCode'):
            ms = max(ms, 4)
        if tier != 'quick' and name in ('RhombicToricCode',
                                        'HollowRhombicCode'):
            ms = 6
        for size in codes.sizes(name, ms, max_n=max_n):
            for dname, kw in codes.deformation_variants(name):
                out.append((name, size, dname, kw))
        # long thin lattices with a two-digit side, every orientation
        dim = codes.dimension(name)
        lo = codes.SUPPORTED[name].get('min_side', 1)
        thin = []
        for pos in range(dim):
            # one lattice per group of lengths: two digits; just past 16 and 32 (where
            # orderings that depend on hashing or on powers of two change)
            for group in ((10, 11, 12), (17, 18), (33, 34)) if tier != 'quick' else ((10, 11, 12), (17, 18)):
                for long_side in group:
                    for other in (lo, lo + 1, lo + 2):
                        size = tuple(long_side if j == pos else other for j in range(dim))
                        if codes.in_family(name, size) and codes.qubit_count(name, size) <= (350 if tier == 'quick' else 700):
                            thin.append(size)
                            break
                    else:
                        continue
                    break
        for size in dict.fromkeys(thin):
            vs = codes.deformation_variants(name)
            for dname, kw in (vs if tier != 'quick' else vs[:1] + vs[-1:]):
                out.append((name, size, dname, kw))
    uniq = dict.fromkeys((a, b, c, tuple(sorted(d.items()))) for a, b, c, d in out)
    return [(a, b, c, dict(d)) for a, b, c, d in uniq]


def forms(tier):
    """The other legal ways of writing a size: sides left out (L_y, L_z default
    to L_x), numpy integers, keyword arguments.  Each builds a code that must
    be valid like any other."""
    import numpy as np
    out = []
    for name in codes.CLASSES:
        dim = codes.dimension(name)
        cubic = [s_ for s_ in codes.sizes(name, 4 if dim == 2 else 3, max_n=200) if len(set(s_)) == 1]
        full = codes.sizes(name, 4 if dim == 2 else 3, max_n=200)
        for s_ in cubic[:2 if tier == 'quick' else 4]:
            out.append((name, s_, 'L_x only', lambda c, s=s_: c(s[0])))
            out.append((name, s_, 'numpy integers', lambda c, s=s_: c(*[np.int64(x) for x in s])))
        if dim == 3:
            for s_ in [x for x in full if x[2] == x[0] and x[1] != x[0]][:2]:
                out.append((name, s_, 'L_z left out', lambda c, s=s_: c(s[0], s[1])))
        names = ['L_x', 'L_y', 'L_z'][:dim]
        for s_ in [x for x in full if len(set(x)) > 1][:2]:
            out.append((name, s_, 'keyword arguments',
                        lambda c, s=s_, nm=names: c(**dict(zip(nm, s)))))
            out.append((name, s_, 'numpy integers', lambda c, s=s_: c(*[np.int32(x) for x in s])))
    return out


def export(dom, tier='quick'):
    recs = []
    for name, size, dname, kw in dom:
        kw = dict(kw)
        lab = codes.label(name, size, dname, kw)
        try:
            code = codes.build(name, size, dname, kw)
            r = codes.project(code)
        except Exception as ex:   # construction must not raise in-family
            r = {'n': 0, 'k': 0, 'd': 0, 'stabs': [], 'lx': [], 'lz': [],
                 'raised': repr(ex)[:200]}
        r['id'] = len(recs)
        r['_label'] = lab
        r['_cost'] = (r['n'] + 1) * (len(r['stabs']) + 1)
        recs.append(r)
    for name, size, form, make in forms(tier):
        lab = f'{codes.label(name, size, None, None)} written as {form}'
        try:
            code = make(codes.cls(name))
            r = codes.project(code)
            if tuple(int(x) for x in code.size) != tuple(size):
                r['raised'] = f'size is {tuple(code.size)} instead of {tuple(size)}'
        except Exception as ex:
            r = {'n': 0, 'k': 0, 'd': 0, 'stabs': [], 'lx': [], 'lz': [],
                 'raised': repr(ex)[:200]}
        r['id'] = len(recs)
        r['_label'] = lab
        r['_cost'] = (r['n'] + 1) * (len(r['stabs']) + 1)
        recs.append(r)
    # code objects AFTER they have served simulations (direct and splitting method,
    # noise with and without an X component: the splitting chains start from a
    # logical operator of the code): still the valid code they were
    for name, size, noise in used_subjects(tier):
        lab = f'{codes.label(name, size, None, None)} after simulations ({noise})'
        try:
            r = codes.project(used_code(name, size, noise))
        except Exception as ex:
            r = {'n': 0, 'k': 0, 'd': 0, 'stabs': [], 'lx': [], 'lz': [],
                 'raised': repr(ex)[:200]}
        r['id'] = len(recs)
        r['_label'] = lab
        r['_cost'] = (r['n'] + 1) * (len(r['stabs']) + 1)
        recs.append(r)
    return recs


def used_subjects(tier):
    out = []
    for name, size in (('Toric2DCode', (4, 4)), ('Planar2DCode', (3, 4)), ('RotatedPlanar2DCode', (3, 3)),
                       ('Toric2DCode', (3, 4))):
        for noise in ('Z', 'X', 'depol'):
            out.append((name, size, noise))
    return out if tier != 'quick' else out[:9]


def used_code(name, size, noise):
    import contextlib
    import io
    import numpy as np
    from panqec.error_models import PauliErrorModel
    from panqec.decoders import MatchingDecoder
    from panqec.simulation import DirectSimulation, SplittingSimulation
    code = codes.build(name, size)
    em = {'Z': PauliErrorModel(0, 0, 1), 'X': PauliErrorModel(1, 0, 0),
          'depol': PauliErrorModel(1 / 3, 1 / 3, 1 / 3)}[noise]
    with contextlib.redirect_stdout(io.StringIO()), np.errstate(all='ignore'):
        DirectSimulation(code, em, MatchingDecoder(code, em, 0.2), 0.2, verbose=False,
                         rng=np.random.default_rng(1)).run(5)
        sim = SplittingSimulation(code, em, [MatchingDecoder(code, em, 0.3)], [0.3], n_init_runs=1,
                                  verbose=False)
        sim.run(40)
    return code


def run(tier):
    t0 = time.time()
    v = common.Verdict('C01')
    dom = domain(tier)
    recs = export(dom, tier)
    t_export = time.time() - t0
    raised = [r for r in recs if 'raised' in r]
    good = [r for r in recs if 'raised' not in r]
    rejects, st = common.eval_records('C01_Data', good, 'c01', shards=16)
    for r in raised:
        v.reject(f"C01:{r['_label']}:construction_raised",
                 {'label': r['_label'], 'raised': r['raised']})
    for r in good:
        if r['id'] in rejects:
            v.reject(f"C01:{r['_label']}",
                     {'label': r['_label'], 'failed_clauses': rejects[r['id']],
                      'n': r['n'], 'k': r['k']})
    # cross-check with the native lattice models (notes only)
    native = []
    for (name, size, dname, kw), r in zip(dom, recs):
        if name in ('Toric2DCode', 'Toric3DCode') and 'raised' not in r and r['n'] <= 110:
            axis = kw.get('deformation_axis', 'y')       # class default for both toric codes
            native.append(dict({k: r[k] for k in ('id', 'n', 'k', 'stabs', 'lx', 'lz')},
                               cls=name, size=list(size), axis=axis,
                               **{'def': dname or 'none'}))
    native_notes = []
    if native:
        _, nst = common.eval_records('C01_Native', native, 'c01n', shards=16)
        native_notes = nst['notes']
        for note in native_notes[:10]:
            lab = recs[note[0]]['_label']
            print(f'NOTE: export of {lab} differs from the native lattice model in {note[1]} '
                  '(not a violation; the property predicates decide)')
    def _corrupt(r):
        if 'raised' in r or len(r['stabs']) < 2:
            return None
        s0 = r['stabs'][0]
        side = 'x' if s0['x'] else 'z'
        s0[side] = s0[side][1:]
        return r
    n_self = common.binding_selftest('c01', 'C01_Data', [r for r in good if r['n'] >= 4], _corrupt)
    rc = v.finish()
    labels = sorted({r['_label'] for r in recs})
    nontrivial = len({r['_label'] for r in good if len(r['stabs']) > 0})
    common.write_evidence(
        'C01', tier, 'model_checking',
        {
            'states': st['distinct'],
            'transitions': st['generated'],
            'traces_validated_against_impl': len(good),
            'samples': [{'label': r['_label'], 'n': r['n'], 'k': r['k'],
                         'm': len(r['stabs'])} for r in recs[::max(1, len(recs)//12)]],
            'evaluations': len(recs),
            'distinct_nontrivial': nontrivial,
            'rule': 'one exported object per (class, size in supported family '
                    'with n <= bound, deformation name, axis); non-trivial = '
                    'has at least one stabilizer; each is judged by TLC with '
                    'Pauli!FailedValid',
            'classes': len({lab.split('(')[0] for lab in labels}),
            'max_n': max(r['n'] for r in recs),
            'native_model_crosschecks': len(native),
            'native_model_differences': len(native_notes),
            'export_s': round(t_export, 1),
            'tlc_s': round(st['wall_s'], 1),
            'exhaustive': True,
        },
        time.time() - t0, len(v.violations),
        assumptions=['supported size families as listed in '
                     'domain/supported.json',
                     'TLC evaluates the predicates on the exported '
                     'stabilizer_matrix / logicals_x / logicals_z arrays'])
    print(f'C01 {tier}: {len(recs)} objects, {len(rejects)+len(raised)} rejected, '
          f'{time.time()-t0:.1f}s')
    return rc


def main():
    tier = sys.argv[1] if len(sys.argv) > 1 else 'quick'
    common.main_wrapper(lambda: run(tier))


if __name__ == '__main__':
    main()
