"""Domain of library codes (supported size families) and the projection of a
StabilizerCode object to the abstract state used by the TLA+ modules."""
import itertools
import json
import os

import numpy as np

import panqec.codes as pc

HERE = os.path.dirname(os.path.abspath(__file__))
with open(os.path.join(os.path.dirname(HERE), 'domain', 'supported.json')) as f:
    SUPPORTED = json.load(f)

CLASSES = [
    'Toric2DCode', 'Planar2DCode', 'RotatedPlanar2DCode',
    'Color666PlanarCode', 'Color666ToricCode', 'Color488Code',
    'Toric3DCode', 'Planar3DCode', 'RotatedPlanar3DCode',
    'RotatedToric3DCode', 'RhombicToricCode', 'RhombicPlanarCode',
    'XCubeCode', 'HollowPlanar3DCode', 'HollowRhombicCode', 'Color3DCode',
]


def cls(name):
    return getattr(pc, name)


def dimension(name):
    return SUPPORTED[name]['dimension']


def in_family(name, size):
    """Is `size` inside the documented/supported family of class `name`?
    The rules are data (domain/supported.json), with provenance there."""
    spec = SUPPORTED[name]
    rule = spec['rule']
    lo = spec.get('min_side', 1)
    if any(s < lo for s in size):
        return False
    if rule == 'any':
        return True
    if rule == 'all_even':
        return all(s % 2 == 0 for s in size)
    if rule == 'square':
        return len(set(size)) == 1
    if rule == 'rotated_toric_3d':
        return size[0] >= 2 and size[1] >= 2 and \
            not (size[0] % 2 == 1 and size[1] % 2 == 1) and size[2] >= 1
    if rule == 'hollow_rhombic':
        L = size[1]
        return L >= 3 and size[2] == L and size[0] in (L, L + 1)
    raise ValueError(rule)


def sizes(name, max_side, max_n=None, min_n=1):
    """All sizes of the family with every side <= max_side (and n <= max_n),
    sorted by n."""
    dim = dimension(name)
    lo = SUPPORTED[name].get('min_side', 1)
    out = []
    for size in itertools.product(range(lo, max_side + 1), repeat=dim):
        if not in_family(name, size):
            continue
        if max_n is not None:
            n = qubit_count(name, size)
            if n > max_n or n < min_n:
                continue
        out.append(size)
    return out


_NCACHE = {}


def qubit_count(name, size):
    key = (name, tuple(size))
    if key not in _NCACHE:
        _NCACHE[key] = len(cls(name)(*size).get_qubit_coordinates())
    return _NCACHE[key]


def deformation_variants(name):
    """(deformation_name, kwargs) pairs a class offers, every accepted axis
    included; first entry is the undeformed code."""
    out = [(None, {})]
    c = cls(name)
    axes = SUPPORTED[name].get('deformation_axes')
    for dname in c.deformation_names:
        if axes:
            out.append((dname, {}))            # default axis
            for ax in axes:
                out.append((dname, {'deformation_axis': ax}))
        else:
            out.append((dname, {}))
    return out


def build(name, size, deformation=None, kwargs=None):
    code = cls(name)(*size)
    if deformation is not None:
        code.deform(deformation, **(kwargs or {}))
    return code


def bsf_to_op(vec, n):
    vec = np.asarray(vec).ravel()
    nz = np.nonzero(vec)[0]
    return {'x': [int(i) for i in nz if i < n],
            'z': [int(i - n) for i in nz if i >= n]}


def rows_to_ops(mat, n):
    """csr / dense (m, 2n) matrix -> list of ops, using *values mod 2 != 0*
    exactly as stored (a stored 2 would be reported as nonzero: the check is
    about the matrix the library uses)."""
    from scipy.sparse import issparse
    if issparse(mat):
        mat = mat.tocsr()
        out = []
        for i in range(mat.shape[0]):
            row = mat.getrow(i)
            cols = sorted(int(c) for c, v in zip(row.indices, row.data)
                          if v != 0)
            out.append({'x': [c for c in cols if c < n],
                        'z': [c - n for c in cols if c >= n]})
        return out
    return [bsf_to_op(r, n) for r in np.asarray(mat)]


def project(code, with_raw=False):
    """Abstract value of a code object (C01/C04/C17 view)."""
    n = code.n
    rec = {
        'n': int(n),
        'k': int(code.k),
        'd': int(code.d),
        'stabs': rows_to_ops(code.stabilizer_matrix, n),
        'lx': rows_to_ops(code.logicals_x, n),
        'lz': rows_to_ops(code.logicals_z, n),
    }
    if with_raw:
        rec.update(project_raw(code))
    return rec


PAULI_ID = {'X': 1, 'Y': 2, 'Z': 3}


def coord(x):
    """One coordinate, exactly, as text (TLC compares tuples of one type):
    '3', '-1', or the exact rational '3/2' (user lattices may use half-integers)."""
    from fractions import Fraction
    f = Fraction(float(x)) if not isinstance(x, (int, np.integer)) else Fraction(int(x))
    return str(int(f)) if f.denominator == 1 else f'{f.numerator}/{f.denominator}'


def project_raw(code):
    """The primitive (lattice-definition) view: coordinates and the dict
    operators returned by get_stabilizer / get_logicals, with sites given as
    indices into the qubit coordinate list (or -1 - j if the site is not a
    qubit coordinate; j indexes `foreign`)."""
    qc = list(code.get_qubit_coordinates())
    sc = list(code.get_stabilizer_coordinates())
    qpos = {}
    for i, q in enumerate(qc):
        qpos.setdefault(tuple(q), i)

    def conv(op):
        sites = []
        for loc, p in op.items():
            loc = tuple(loc)
            sites.append([qpos.get(loc, -1), p])
        return sites

    return {
        'qcoords': [[coord(x) for x in q] for q in qc],
        'scoords': [[coord(x) for x in s] for s in sc],
        'raw_stabs': [conv(code.get_stabilizer(loc)) for loc in sc],
        'raw_lx': [conv(op) for op in code.get_logicals_x()],
        'raw_lz': [conv(op) for op in code.get_logicals_z()],
    }


def label(name, size, deformation=None, kwargs=None):
    s = f"{name}{tuple(int(x) for x in size)}"
    if deformation:
        ax = (kwargs or {}).get('deformation_axis', 'default')
        s += f"/{deformation}@{ax}"
    return s
