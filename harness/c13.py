"""C13 - input specifications expand to exactly the requested simulations.

model: InputSpec_Model.tla enumerates every specification shape (ranges dict,
list of ranges, explicit runs; 1..K values per axis; dict / list parameter
forms) and checks the denotation Expand on each.
spec -> code: each shape is materialised as a real input dictionary, read by
read_input_dict and expand_input_ranges, the simulations built are projected
back to abstract tuples and TLC (C13_Data.tla) judges them against
InputSpec!ExactlyRequested.  Registry resolution and rebuild-from-recorded-
inputs are judged by the same module.
"""
import contextlib
import copy
import io
import json
import os
import sys
import time

import numpy as np

from . import codes, common
from panqec.config import CODES, DECODERS, ERROR_MODELS
from panqec.simulation import read_input_dict, expand_input_ranges, DirectSimulation
from panqec.simulation._batch_simulation import (
    _parse_code_dict, _parse_error_model_dict, _parse_decoder_dict)
from panqec.error_models import PauliErrorModel
from panqec.utils import NumpyEncoder

BLOCK_CODE = {1: 'Toric2DCode', 2: 'Planar2DCode'}
DIRS = {1: (1.0, 0.0, 0.0), 2: (0.3, 0.6, 0.1), 3: (0.5, 0.0, 0.5),      # 2: the float sum is 0.9999999999999999
        4: (0.0, 0.0, 1.0), 5: (0.0, 1.0, 0.0)}


def code_params(c, form):
    lx, ly = 1 + c, 2 + c
    if form != 'dict':
        return [lx, ly]
    # a dictionary names its entries: the order in which they are written is free
    return {'L_x': lx, 'L_y': ly} if c % 2 else {'L_y': ly, 'L_x': lx}


def noise_params(n, form):
    rx, ry, rz = DIRS[n]
    if form != 'dict':
        return [rx, ry, rz]
    return [{'r_x': rx, 'r_y': ry, 'r_z': rz}, {'r_z': rz, 'r_x': rx, 'r_y': ry},
            {'r_y': ry, 'r_z': rz, 'r_x': rx}][n % 3]


BP_DEFAULTS = {'max_bp_iter': 1000, 'channel_update': False, 'osd_order': 10,
               'bp_method': 'minimum_sum'}


def dec_params(d):
    """Requested decoder parameter set number d: every parameter of the class
    takes non-default values somewhere, including values that are falsy (0,
    False) and differ from the default."""
    if d == 1:
        return {'max_bp_iter': 11, 'osd_order': 0, 'channel_update': False}
    if d == 2:
        return {'max_bp_iter': 12, 'osd_order': 3, 'channel_update': True}
    if d == 3:
        return {'max_bp_iter': 13, 'osd_order': 0, 'bp_method': 'product_sum'}
    return {'max_bp_iter': 10 + d, 'osd_order': d}


def built_as_requested(params, d):
    """Every parameter of the built decoder equals the requested value, or the
    class default where nothing was requested."""
    want = dict(BP_DEFAULTS)
    if d >= 1:
        want.update(dec_params(d))
    return set(params) == set(want) and all(
        type(params[k]) is type(want[k]) and params[k] == want[k] for k in want)


def rate(r):
    return round(0.01 * r, 4)


def materialise(spec):
    def block_dict(j, b):
        dd = {'name': 'BeliefPropagationOSDDecoder'}
        if b['nd'] == 1:
            dd['parameters'] = dec_params(1)
        elif b['nd'] >= 2:
            dd['parameters'] = [dec_params(d) for d in range(1, b['nd'] + 1)]
        return {
            'label': f'block{j}',
            'code': {'name': BLOCK_CODE[j],
                     'parameters': [code_params(c, b['cform']) for c in range(1, b['nc'] + 1)]},
            'error_model': {'name': 'PauliErrorModel',
                            'parameters': [noise_params(n, b['nform']) for n in range(1, b['nn'] + 1)]},
            'decoder': dd,
            'error_rate': [rate(r) for r in range(1, b['nr'] + 1)],
        }
    if spec['form'] == 'ranges':
        return {'comments': '', 'ranges': block_dict(1, spec['blocks'][0])}
    if spec['form'] == 'ranges_list':
        return {'comments': '', 'ranges': [block_dict(j + 1, b)
                                           for j, b in enumerate(spec['blocks'])]}
    b = spec['blocks'][0]
    runs = []
    for (j, c, n, d, r) in spec['runs']:
        dd = {'name': 'BeliefPropagationOSDDecoder'}
        if d >= 1:
            dd['parameters'] = dec_params(d)
        runs.append({'label': 'run',
                     'code': {'name': BLOCK_CODE[j], 'parameters': code_params(c, b['cform'])},
                     'error_model': {'name': 'PauliErrorModel',
                                     'parameters': noise_params(n, b['nform'])},
                     'decoder': dd, 'error_rate': rate(r)})
    return {'comments': '', 'runs': runs}


def back_code(name, params):
    for j, cn in BLOCK_CODE.items():
        if cn == name:
            for c in range(1, 8):
                if params.get('L_x') == 1 + c and params.get('L_y') == 2 + c:
                    return j, c
            return j, 0
    return 0, 0


def back_noise(direction):
    for n, dr in DIRS.items():
        if tuple(float(x) for x in direction) == dr:
            return n
    return 0


def project_sim(sim):
    j, c = back_code(type(sim.code).__name__, sim.code.params)
    if sim.code.id != type(sim.code).__name__:
        j = 0
    n = back_noise(sim.error_model.direction)
    it = sim.decoder.params.get('max_bp_iter')
    d = 0 if it == 1000 else (it - 10 if isinstance(it, int) and 1 <= it - 10 <= 9 else -1)
    if type(sim.decoder).__name__ != 'BeliefPropagationOSDDecoder':
        d = -1
    if d >= 0 and not built_as_requested(sim.decoder.params, d):
        d = -1
    r = round(sim.error_rate / 0.01)
    if abs(sim.error_rate - rate(r)) > 1e-12:
        r = 0
    return [j, c, n, d, int(r)]


def project_run_dict(run):
    """abstract tuple of one dict produced by expand_input_ranges"""
    cp = run['code']['parameters']
    if isinstance(cp, list):
        cp = {'L_x': cp[0], 'L_y': cp[1]}
    j, c = back_code(run['code']['name'], cp)
    np_ = run['error_model']['parameters']
    if isinstance(np_, dict):
        np_ = (np_['r_x'], np_['r_y'], np_['r_z'])
    n = back_noise(np_)
    dp = run['decoder'].get('parameters') or {}
    it = dp.get('max_bp_iter')
    d = 0 if it is None else it - 10
    if d >= 1 and dp != dec_params(d):
        d = -1
    r = round(run['error_rate'] / 0.01)
    return [j, c, n, d, int(r)]


def drive_spec(spec):
    data = materialise(spec)
    rec = {'kind': 'spec', 'spec': spec, 'observed': [], 'expanded': [],
           'wired': [], 'raised': ''}
    try:
        with contextlib.redirect_stdout(io.StringIO()):
            # the same specification through the entry points a user has: the
            # dictionary, or an input file (plain or gzipped) as `panqec run` reads it
            import zlib
            h = zlib.crc32(json.dumps(spec, sort_keys=True).encode())
            form = h % 3
            if form == 0:
                mine = copy.deepcopy(data)
                batch = read_input_dict(mine, '/nonexistent/out.json', verbose=False)
                if (h // 3) % 2 == 0:
                    # one specification object, a batch per output file: the
                    # second expansion must give the same simulations
                    batch = read_input_dict(mine, '/nonexistent/out2.json', verbose=False)
            else:
                import gzip
                import tempfile
                from panqec.simulation import read_input_json
                with tempfile.TemporaryDirectory(dir=common.scratch_dir('c13f')) as td:
                    f_ = os.path.join(td, 'input_bias_0.5.json' + ('.gz' if form == 2 else ''))
                    if form == 2:
                        with gzip.open(f_, 'wb') as fh:
                            fh.write(json.dumps(data).encode())
                    else:
                        with open(f_, 'w') as fh:
                            json.dump(data, fh)
                    batch = read_input_json(f_, '/nonexistent/out.json')
        for sim in batch._simulations:
            rec['observed'].append(project_sim(sim))
            rec['wired'].append(bool(sim.decoder.code is sim.code
                                     and sim.decoder.error_model is sim.error_model
                                     and sim.decoder.error_rate == sim.error_rate))
        if spec['form'] == 'ranges':
            rec['expanded'] = [project_run_dict(r)
                               for r in expand_input_ranges(copy.deepcopy(data['ranges']))]
    except Exception as ex:
        rec['raised'] = f'{type(ex).__name__}: {ex}'[:160]
    return rec


def model_specs(tier, work):
    out = os.path.join(work, 'specs.json')
    cfg = 'InputSpec_Model.cfg' if tier == 'quick' else 'InputSpec_Model_thorough.cfg'
    r = common.run_tlc('InputSpec_Model', cfg=cfg, env={'VERIF_OUT': out},
                       workers=16, workdir=work, timeout=3000)
    common.require_ok(r, 'InputSpec_Model')
    if r['violation']:
        raise common.MachineryError('InputSpec_Model violated:\n' + r['stdout'][-1500:])
    with open(out) as f:
        return json.load(f), r


def registry_records():
    recs = []
    for reg, table in (('CODES', CODES), ('ERROR_MODELS', ERROR_MODELS),
                       ('DECODERS', DECODERS)):
        for name, cls in table.items():
            recs.append({'kind': 'registry', 'registry': reg, 'name': name,
                         'resolved': cls.__name__})
    return recs


def sim_projection(code, em, dec, p):
    pr = codes.project(code)
    pd = em.probability_distribution(code, p)
    return {
        'code_id': code.id, 'code_params': code.params, 'code': pr,
        'noise_id': em.id, 'noise_params': json.loads(json.dumps(em.params)),
        'noise_tables': [[repr(float(x)) for x in arr] for arr in pd],
        'decoder_id': dec.id,
        'decoder_params': json.loads(json.dumps(dec.params, cls=NumpyEncoder)),
        'error_rate': repr(float(p)),
    }


def rebuild_records():
    recs = []
    for name in codes.CLASSES:
        ss = codes.sizes(name, 3 if codes.dimension(name) == 2 else 2, max_n=160) \
            or codes.sizes(name, 4, max_n=200)
        size = ss[-1]
        cls = codes.cls(name)
        code = cls(*size)
        dnames = cls.deformation_names
        for em in [PauliErrorModel(0.2, 0.3, 0.5)] + \
                [PauliErrorModel(0.1, 0.0, 0.9, deformation_name=dn) for dn in dnames[:1]]:
            dec = DECODERS['BeliefPropagationOSDDecoder'](code, em, 0.07, max_bp_iter=13,
                                                          osd_order=0, channel_update=True)
            sim = DirectSimulation(code, em, dec, 0.07, verbose=False)
            rec = {'kind': 'rebuild', 'label': f'{name}{size}'}
            try:
                inputs = json.loads(json.dumps(sim._inputs, cls=NumpyEncoder))
                code2 = _parse_code_dict(inputs['code'])
                em2 = _parse_error_model_dict(inputs['error_model'])
                dec2 = _parse_decoder_dict(inputs['decoder'], code2, em2,
                                           inputs['error_rate'])
                rec['original'] = sim_projection(code, em, dec, 0.07)
                rec['rebuilt'] = sim_projection(code2, em2, dec2, inputs['error_rate'])
            except Exception as ex:
                rec['original'] = {'ok': True}
                rec['rebuilt'] = {'raised': f'{type(ex).__name__}: {ex}'[:160]}
            recs.append(rec)
    return recs


DECODER_PARAM_VALUES = {
    'MatchingDecoder': [('Toric2DCode', {'L_x': 3, 'L_y': 4}, {'error_type': ['X', 'Z']})],
    'RotatedSweepMatchDecoder': [('RotatedPlanar3DCode', {'L_x': 3, 'L_y': 3, 'L_z': 2}, {'max_rounds': [1, 5, 40]}),
                                 ('RotatedToric3DCode', {'L_x': 2, 'L_y': 2, 'L_z': 2}, {'max_rounds': [2]})],
    'BeliefPropagationOSDDecoder': [('Planar2DCode', {'L_x': 2, 'L_y': 3},
                                     {'max_bp_iter': [7], 'channel_update': [True], 'osd_order': [3],
                                      'bp_method': ['product_sum']})],
    'MemoryBeliefPropagationDecoder': [('Toric2DCode', {'L_x': 2, 'L_y': 3},
                                        {'max_bp_iter': [7], 'alpha': [0.7], 'beta': [0.2]})],
}


def decoder_param_records():
    """Every constructor parameter of every registered decoder, set to values
    other than the default through an input specification: the decoder built -
    and every decoder object it is made of - carries the requested value."""
    import inspect
    from panqec.decoders import BaseDecoder
    recs = []
    for dname, cls in DECODERS.items():
        sig = inspect.signature(cls.__init__)
        pars = [k for k in sig.parameters if k not in ('self', 'code', 'error_model', 'error_rate', 'weights')]
        if pars and dname not in DECODER_PARAM_VALUES:
            recs.append({'kind': 'decoder_params', 'label': dname, 'requested': [], 'echoed': [],
                         'components': [], 'raised': f'MACHINERY: no values listed for {dname}{pars}'})
        for cname, cpar, table in DECODER_PARAM_VALUES.get(dname, []):
            for par, values in table.items():
                if par not in pars:
                    raise common.MachineryError(f'{dname} has no constructor parameter {par}')
                for val in values:
                    rec = {'kind': 'decoder_params', 'label': f'{dname}({par}={val!r})@{cname}',
                           'requested': [[par, repr(val)]], 'echoed': [], 'components': [], 'raised': ''}
                    spec = {'comments': '', 'ranges': {
                        'label': 'p', 'code': {'name': cname, 'parameters': [dict(cpar)]},
                        'error_model': {'name': 'PauliErrorModel', 'parameters': [{'r_x': 0.2, 'r_y': 0.3, 'r_z': 0.5}]},
                        'decoder': {'name': dname, 'parameters': [{par: val}]}, 'error_rate': [0.05]}}
                    try:
                        with contextlib.redirect_stdout(io.StringIO()):
                            batch = read_input_dict(spec, '/nonexistent/out.json', verbose=False)
                        dec = batch._simulations[0].decoder
                        rec['echoed'] = [[k, repr(v)] for k, v in dec.params.items()]
                        owners = [('decoder', dec)] + [(f'decoder.{a}', o) for a, o in vars(dec).items()
                                                       if isinstance(o, BaseDecoder)]
                        for oname, o in owners:
                            for attr in (par, '_' + par):
                                if hasattr(o, attr):
                                    rec['components'].append([oname, par, repr(getattr(o, attr))])
                    except Exception as ex:
                        rec['raised'] = f'{type(ex).__name__}: {ex}'[:160]
                    recs.append(rec)
    return recs


def omitted_side_records():
    """Code parameters with sides left out (the documented rule: L_y and L_z default to
    L_x), as a dict and as a list, for a 2-D and every cheap 3-D class: the code built
    has exactly the requested sides, the others equal to L_x."""
    recs = []
    for cname in ('Toric2DCode', 'Toric3DCode', 'Planar3DCode', 'RotatedPlanar3DCode', 'XCubeCode',
                  'RhombicPlanarCode'):
        dim = codes.dimension(cname)
        for given in ([3], [2, 3], [3, 2], [2, 2, 3])[: (2 if dim == 2 else 4)]:
            if len(given) > dim:
                continue
            want = list(given) + [given[0]] * (dim - len(given))
            if not codes.in_family(cname, tuple(want)):
                continue
            for form in ('dict', 'list'):
                par = dict(zip(['L_x', 'L_y', 'L_z'], given)) if form == 'dict' else list(given)
                rec = {'kind': 'sides', 'label': f'{cname}{par}', 'expected': want, 'built': [], 'recorded': [],
                       'raised': ''}
                spec = {'comments': '', 'ranges': {
                    'label': 's', 'code': {'name': cname, 'parameters': [par]},
                    'error_model': {'name': 'PauliErrorModel', 'parameters': [{'r_x': 0.2, 'r_y': 0.3, 'r_z': 0.5}]},
                    'decoder': {'name': 'BeliefPropagationOSDDecoder'}, 'error_rate': [0.05]}}
                try:
                    with contextlib.redirect_stdout(io.StringIO()):
                        batch = read_input_dict(spec, '/nonexistent/out.json', verbose=False)
                    sim = batch._simulations[0]
                    rec['built'] = [int(x) for x in sim.code.size]
                    cp = sim._inputs['code']['parameters']
                    rec['recorded'] = [int(cp[k]) for k in ('L_x', 'L_y', 'L_z')[:dim]]
                except Exception as ex:
                    rec['raised'] = f'{type(ex).__name__}: {ex}'[:160]
                recs.append(rec)
    return recs


def run(tier):
    t0 = time.time()
    v = common.Verdict('C13')
    work = common.scratch_dir('c13')
    specs, model = model_specs(tier, work)
    recs = [drive_spec(s) for s in specs]
    n_spec = len(recs)
    recs += registry_records()
    n_reg = len(recs) - n_spec
    recs += rebuild_records()
    recs += decoder_param_records()
    recs += omitted_side_records()
    for j, r in enumerate(recs):
        r['id'] = j
        r['_cost'] = len(r.get('observed', [])) ** 2 + 5
    rejects, st = common.eval_records('C13_Data', recs, 'c13', shards=16)
    for r in recs:
        if r['id'] in rejects:
            cl = sorted(rejects[r['id']])
            if r['kind'] == 'registry':
                key = f"C13:registry:{r['registry']}[{r['name']}]->{r['resolved']}"
            elif r['kind'] == 'rebuild':
                key = f"C13:rebuild:{r['label']}"
            elif r['kind'] == 'sides':
                key = f"C13:omitted-sides:{r['label']}:" + ','.join(cl)
            elif r['kind'] == 'decoder_params':
                if r['raised'].startswith('MACHINERY'):
                    raise common.MachineryError(r['raised'])
                key = f"C13:decoder-parameters:{r['label']}:" + ','.join(cl)
            else:
                key = f"C13:spec:{r['spec']['form']}:" + ','.join(cl)
            v.reject(key, common.trim({k: x for k, x in r.items()
                                       if k not in ('original', 'rebuilt') and not k.startswith('_')}, 2500)
                     if r['kind'] != 'rebuild' else {'label': r['label'], 'failed': cl,
                                                     'code_id': [r['original'].get('code_id'), r['rebuilt'].get('code_id')]})
    def _corrupt(r):
        if r['kind'] != 'spec' or len(r['observed']) < 2 or r['raised']:
            return None
        r['observed'] = r['observed'][1:]
        return r
    common.binding_selftest('c13', 'C13_Data', [r for r in recs if r['id'] not in rejects], _corrupt)
    rc = v.finish()
    common.cleanup(work)
    common.write_evidence(
        'C13', tier, 'model_checking',
        {
            'states': model['distinct'] + st['distinct'],
            'transitions': model['generated'] + st['generated'],
            'traces_validated_against_impl': len(recs),
            'samples': [{'spec': recs[0]['spec'], 'observed': recs[0]['observed']},
                        {'spec': recs[n_spec - 1]['spec'], 'n_observed': len(recs[n_spec - 1]['observed'])},
                        {k: recs[n_spec][k] for k in ('registry', 'name', 'resolved')},
                        {'rebuild': recs[-1]['label']}],
            'evaluations': len(recs),
            'distinct_nontrivial': len([r for r in recs[:n_spec] if len(r['observed']) > 1]) + n_reg,
            'rule': 'every specification shape enumerated by InputSpec_Model '
                    '(ranges / list of ranges / runs; 1..K values per axis; '
                    'dict and list parameter forms; decoder parameters '
                    'absent / dict / list) + every registered name + one '
                    'rebuild per code class and noise deformation; '
                    'non-trivial = more than one simulation requested',
            'spec_shapes': n_spec, 'registry_entries': n_reg,
            'rebuilds': len(recs) - n_spec - n_reg,
            'exhaustive': True,
        },
        time.time() - t0, len(v.violations),
        assumptions=['abstract parameter values are materialised by the '
                     'harness (Toric2D/Planar2D sizes, 5 noise directions, '
                     'BP-OSD max_bp_iter, rates 0.01 r) and mapped back '
                     'exactly'])
    print(f'C13 {tier}: {n_spec} specification shapes, {n_reg} registry entries, '
          f'{len(recs)-n_spec-n_reg} rebuilds, {len(rejects)} rejected, {time.time()-t0:.1f}s')
    return rc


def main():
    tier = sys.argv[1] if len(sys.argv) > 1 else 'quick'
    common.main_wrapper(lambda: run(tier))


if __name__ == '__main__':
    main()
