"""Decoder configurations and the event recorder shared by C05, C06, C09."""
import numpy as np

from . import codes, common
from panqec.config import DECODERS
from panqec.error_models import PauliErrorModel

SYNDROME_DTYPES = [None, 'int64', 'uint8', 'bool', 'uint64', 'int32']
DECODE_TIMEOUT = 20       # seconds; a decode that never returns is a rejected event

COMPLETE = {'MatchingDecoder', 'UnionFindDecoder', 'BeliefPropagationOSDDecoder'}
# decoders with an internal RNG: validity only, no purity across objects
RANDOMISED = {'SweepMatchDecoder', 'RotatedSweepMatchDecoder', 'SweepDecoder3D',
              'RotatedSweepDecoder3D'}

NOISES = {
    'depol': (1 / 3, 1 / 3, 1 / 3),
    'X': (1.0, 0.0, 0.0),
    'Y': (0.0, 1.0, 0.0),
    'Z': (0.0, 0.0, 1.0),
    'Zbias': (1 / 22, 1 / 22, 10 / 11),
    'XZmix': (0.3, 0.1, 0.6),      # at p = 0.7 the flip marginals are 0.28 and 0.49: below 1/2 at a rate above 1/2
}


def allowed_code_names(dec_name):
    ac = DECODERS[dec_name].allowed_codes
    return list(codes.CLASSES) if ac is None else list(ac)


def make_noise(direction, deformation=None, kw=None):
    return PauliErrorModel(*NOISES[direction], deformation_name=deformation,
                           deformation_kwargs=kw)


def config_label(cfg):
    s = f"{cfg['decoder']}"
    if cfg.get('dec_kwargs'):
        s += '[' + ','.join(f'{k}={v}' for k, v in sorted(cfg['dec_kwargs'].items())) + ']'
    s += '@' + codes.label(cfg['code'], cfg['size'], cfg.get('code_def'), cfg.get('code_def_kw'))
    s += f"/{cfg['noise']}"
    if cfg.get('noise_def'):
        s += f"+{cfg['noise_def']}"
    s += f"/p={cfg['p']}"
    return s


def build(cfg):
    code = codes.build(cfg['code'], tuple(cfg['size']), cfg.get('code_def'),
                       cfg.get('code_def_kw'))
    em = make_noise(cfg['noise'], cfg.get('noise_def'), cfg.get('noise_def_kw'))
    return code, em


def new_decoder(cfg, code, em):
    return DECODERS[cfg['decoder']](code, em, cfg['p'], **cfg.get('dec_kwargs', {}))


def tables(em, code, p):
    return [np.array(a, copy=True) for a in em.probability_distribution(code, p)]


def poison(n, tick):
    vals = (0.93, 0.021, 0.47, 0.77)
    for size in (n, 2 * n):
        junk = [np.full(size, vals[(tick + j) % len(vals)]) for j in range(8)]
        del junk


class Recorder:
    """Event log of one decoder configuration (see DecoderContract.tla)."""

    def __init__(self, cfg):
        self.cfg = cfg
        self.code, self.em = build(cfg)
        self.events = []
        self.objs = {}

    def construct(self, obj):
        ev = {'kind': 'construct', 'obj': obj, 'raised': '', 'tables_intact': True}
        tb = tables(self.em, self.code, self.cfg['p'])
        try:
            self.objs[obj] = new_decoder(self.cfg, self.code, self.em)
            ta = tables(self.em, self.code, self.cfg['p'])
            ev['tables_intact'] = all(np.array_equal(a, b) for a, b in zip(ta, tb))
        except Exception as ex:
            ev['raised'] = f'{type(ex).__name__}: {ex}'[:150]
        self.events.append(ev)
        return ev['raised'] == ''

    def decode(self, obj, syndrome):
        n = self.code.n
        # the caller's array comes in the dtypes callers really use: what
        # measure_syndrome returns (uint8), arrays reloaded from JSON or built
        # with integer matrices (int64), np.uint as in the repository's tests
        self.n_decodes = getattr(self, 'n_decodes', 0) + 1
        dt = SYNDROME_DTYPES[(self.n_decodes + self.n_decodes // len(SYNDROME_DTYPES)) % len(SYNDROME_DTYPES)]
        syn = np.array(syndrome, copy=True) if dt is None else np.array(syndrome, dtype=dt)
        before = syn.copy()
        tb = tables(self.em, self.code, self.cfg['p'])
        ev = {'kind': 'decode', 'obj': obj,
              'syn': [int(i) for i in np.nonzero(np.asarray(before).ravel())[0]],
              'corr': {'x': [], 'z': []}, 'len': 0, 'binary': False,
              'raised': '', 'syn_intact': True, 'tables_intact': True}
        # freed blocks of the sizes a decoder typically allocates are filled
        # with recognisable values first: a decoder that reads memory it has
        # not written (np.empty taken for np.zeros) then sees values that
        # change from call to call instead of whatever happened to be there
        poison(n, len(self.events))
        try:
            import contextlib, io, signal

            def _alarm(signum, frame):
                raise TimeoutError(f'decode did not return within {DECODE_TIMEOUT}s')
            old = signal.signal(signal.SIGALRM, _alarm)
            signal.alarm(DECODE_TIMEOUT)
            try:
                with contextlib.redirect_stdout(io.StringIO()):
                    c = self.objs[obj].decode(syn)
            finally:
                signal.alarm(0)
                signal.signal(signal.SIGALRM, old)
            c = np.asarray(c).ravel()
            ev['len'] = int(c.shape[0])
            ev['binary'] = bool(np.all((c == 0) | (c == 1)))
            if ev['len'] == 2 * n:
                ev['corr'] = codes.bsf_to_op(c, n)
            ev['syn_intact'] = bool(np.array_equal(np.asarray(syn), before))
            ta = tables(self.em, self.code, self.cfg['p'])
            ev['tables_intact'] = all(np.array_equal(a, b) for a, b in zip(ta, tb))
        except Exception as ex:
            import traceback
            tb_ = traceback.extract_tb(ex.__traceback__)
            where = [f for f in tb_ if '/panqec/' in f.filename and '/site-packages/' not in f.filename]
            loc = f' at {"panqec/" + where[-1].filename.split("/panqec/")[-1]}:{where[-1].lineno}' if where else ''
            ev['raised'] = f'{type(ex).__name__}: {str(ex)[:80]}{loc}'
        self.events.append(ev)
        return ev

    def interrupted_decode(self, obj, syndrome, k):
        """decode() with a KeyboardInterrupt delivered at the k-th line of library
        code it executes (the places where a real Ctrl-C can land).  Recorded as an
        "interrupted" event; if the call finishes before line k it is an ordinary
        decode event."""
        import contextlib, io, sys
        from .c12_points import Interrupter
        syn = np.array(syndrome, dtype=np.uint8)
        before = syn.copy()
        tb = tables(self.em, self.code, self.cfg['p'])
        hook = Interrupter(k)
        fired = False
        try:
            sys.settrace(hook)
            try:
                with contextlib.redirect_stdout(io.StringIO()):
                    self.objs[obj].decode(syn)
            finally:
                sys.settrace(None)
        except KeyboardInterrupt:
            fired = True
        except Exception:
            fired = False
        if not fired:
            return None
        ta = tables(self.em, self.code, self.cfg['p'])
        ev = {'kind': 'interrupted', 'obj': obj,
              'syn': [int(i) for i in np.nonzero(before.ravel())[0]],
              'corr': {'x': [], 'z': []}, 'len': 0, 'binary': False, 'raised': '',
              'syn_intact': bool(np.array_equal(syn, before)),
              'tables_intact': all(np.array_equal(a, b) for a, b in zip(ta, tb)),
              'where': hook.where}
        self.events.append(ev)
        return ev

    def record(self, complete=None, sector='all'):
        dec = self.cfg['decoder']
        n = self.code.n
        return {
            'n': int(n),
            'stabs': codes.rows_to_ops(self.code.stabilizer_matrix, n),
            'complete': bool(dec in COMPLETE if complete is None else complete),
            'deterministic': bool(dec not in RANDOMISED),
            'sector': sector,
            'events': self.events,
            '_label': config_label(self.cfg),
            '_cfg': self.cfg,
            '_cost': (len(self.events) + 1) * (n + 1),
        }


def all_syndromes(code, limit):
    """All valid syndromes of a small code (the column space of H Lambda), or
    None if there are more than `limit`."""
    H = code.stabilizer_matrix.toarray() % 2
    n = code.n
    Hs = np.hstack([H[:, n:], H[:, :n]]).astype(np.uint8)
    zero = np.zeros(H.shape[0], dtype=np.uint8)
    span = {zero.tobytes(): zero}        # always a subspace
    for col in range(2 * n):
        v = Hs[:, col]
        if v.tobytes() in span:
            continue
        if 2 * len(span) > limit:
            return None
        span.update({((u + v) % 2).tobytes(): (u + v) % 2
                     for u in list(span.values())})
    return list(span.values())


def eval_traces(recs, name, shards=14, timeout=3000):
    """Validate event logs with DecoderContract.tla.  Returns
    ({id: [clause@position]}, stats)."""
    import concurrent.futures
    import json
    import os
    if not recs:
        return {}, {'generated': 0, 'distinct': 0}
    work = common.scratch_dir('dec-' + name)
    order = sorted(recs, key=lambda r: -r.get('_cost', 1))
    nsh = max(1, min(shards, len(recs)))
    parts = [order[i::nsh] for i in range(nsh)]

    def one(idx):
        d = os.path.join(work, f's{idx}')
        os.makedirs(d, exist_ok=True)
        f = os.path.join(d, 'data.json')
        with open(f, 'w') as fh:
            json.dump([common.sanitize({k: v for k, v in r.items()
                                        if not k.startswith('_')}) for r in parts[idx]], fh)
        return idx, common.run_tlc('DecoderContract', env={'VERIF_DATA': f},
                                   workers=1, workdir=d, timeout=timeout, heap='3g')

    rej = {}
    gen = dis = 0
    with concurrent.futures.ThreadPoolExecutor(max_workers=16) as ex:
        for idx, r in ex.map(one, range(len(parts))):
            common.require_ok(r, 'DecoderContract')
            pr = common.printed(r['stdout'])
            want = sum(len(t['events']) for t in parts[idx])
            got = [x for x in pr if x[0] == 'CHECKED']
            if not got or got[-1][1] != want:
                raise common.MachineryError(
                    f'DecoderContract consumed {got[-1][1] if got else None} of '
                    f'{want} events\n' + r['stdout'][-1500:])
            for x in pr:
                if x[0] == 'REJECT':
                    rej.setdefault(x[1], [])
                    rej[x[1]] += x[2]
            gen += r['generated']
            dis += r['distinct']
    common.cleanup(work)
    return rej, {'generated': gen, 'distinct': dis}


C05_CLAUSES = {'construction_raised', 'decode_raised', 'binary_vector_of_length_2n',
               'correction_reproduces_syndrome', 'trivial_syndrome_trivial_correction'}
C06_CLAUSES = {'same_syndrome_same_correction_whatever_the_history',
               'caller_syndrome_not_modified', 'noise_tables_not_modified',
               'whether_a_syndrome_is_decoded_does_not_depend_on_the_history'}


def shape_tag(size):
    tags = ['cubic' if len(set(size)) == 1 else 'non-cubic']
    if min(size) == 2:
        tags.append('min-side-2')
    if min(size) == 1:
        tags.append('min-side-1')
    tags.append('parity=' + ''.join(str(int(x) % 2) for x in size))
    return ','.join(tags)


def marginal_above_half(cfg):
    """Is the probability that a qubit suffers an X-type (or a Z-type) flip
    above 1/2 for this configuration?"""
    rx, ry, rz = NOISES[cfg['noise']]
    p = cfg['p']
    return p * max(rx + ry, rz + ry) > 0.5


PRIORITY = ['construction_raised', 'decode_raised', 'binary_vector_of_length_2n',
            'correction_reproduces_syndrome', 'trivial_syndrome_trivial_correction',
            'caller_syndrome_not_modified', 'noise_tables_not_modified',
            'same_syndrome_same_correction_whatever_the_history']


def finding_key(prop, rec, clauses):
    """(decoder, code class, lattice shape class, code deformed or not) and
    the most basic clause that fails."""
    cfg = rec['_cfg']
    names = {c.split('@')[0] for c in clauses}
    first = next((c for c in PRIORITY if c in names), sorted(names)[0])
    css = 'deformed-code' if cfg.get('code_def') else 'plain-code'
    # above 1/2 the matching weights log((1-p)/p) are negative: a regime of its own
    rate = ';flip-probability-above-half' if marginal_above_half(cfg) else ''
    return f"{prop}:{cfg['decoder']}@{cfg['code']}[{shape_tag(cfg['size'])};{css}{rate}]:{first}"
